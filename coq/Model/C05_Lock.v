(* C05 — the lock graph of tensordict, transcribed (definitions only).
   Sources: tensordict/base.py  _propagate_lock / lock_ / _propagate_unlock / _check_unlock / unlock_ / __setstate__,
            tensordict/_lazy.py is_locked / _lock_parents_weakrefs / _propagate_lock / _propagate_unlock / insert / append,
            tensordict/utils.py lock_blocked,  tensordict/_td.py _set_str / del_ / rename_key_ / _select / _exclude /
            popitem / _memmap_ / share_memory_ / make_memmap, tensordict/_reductions.py _reduce_td/_make_td.
   Every traversal is fuelled; running out of fuel is [None] (Python: RecursionError on a cyclic structure), never a
   default value.  Theorems are stated for every fuel and every history on which no step returns [None]. *)
From Coq Require Import List String Bool Arith PeanoNat.
Import ListNotations.
From TD Require Import Model.C05_Heap.

(* ---- LazyStackedTensorDict.is_locked (derived when _is_locked is None); TensorDict: the flag ------------------ *)
Fixpoint is_locked (fuel : nat) (h : heap) (n : nat) : option bool :=
  match fuel with
  | 0 => None
  | S f =>
    match lookup h n with
    | None => Some false
    | Some nd =>
      match flg nd with
      | FTrue => Some true
      | FFalse => Some false
      | FNone =>
        match nk nd with
        | KTd => Some false
        | KLazy => match node_children nd with
                   | [] => Some false           (* `if not self.tensordicts: return False` *)
                   | cs => opt_all (is_locked f h) cs
                   end
        end
      end
    end
  end.

(* ---- _lock_parents_weakrefs: stored list (TensorDict) / the stack's own record plus its members' lists minus self (lazy stack) *)
Fixpoint parents_of (fuel : nat) (h : heap) (n : nat) : option (list nat) :=
  match fuel with
  | 0 => None
  | S f =>
    match lookup h n with
    | None => Some []
    | Some nd =>
      match nk nd with
      | KTd => Some (pars nd)
      | KLazy => option_map (fun l => pars nd ++ filter (fun p => negb (Nat.eqb p n)) l) (opt_concat (parents_of f h) (node_children nd))
      end
    end
  end.

(* ---- _propagate_lock ----------------------------------------------------------------------------------------- *)
Fixpoint plock (fuel : nat) (h : heap) (n : nat) (ps : option (list nat)) : option heap :=
  match fuel with
  | 0 => None
  | S f =>
    match lookup h n with
    | None => Some h
    | Some nd =>
      match nk nd with
      | KTd =>
        (* refs already present are filtered out (identity of the weakref object = identity of the target) *)
        let filtered := option_map (filter (fun r => negb (memb r (pars nd)))) ps in
        let pars' := match filtered with None => pars nd | Some l => pars nd ++ l end in
        let pass := match filtered with None => [n] | Some l => l ++ [n] end in
        let h1 := upd h n (set_flag_pars nd FTrue pars') in
        fold_opt (fun h' c => plock f h' c (Some pass)) (node_children nd) h1
      | KLazy =>
        (* the stack records the parents it is given (not yet present), and hands the whole list plus itself to its members *)
        let own := match ps with None => pars nd | Some l => pars nd ++ filter (fun r => negb (memb r (pars nd))) l end in
        let pass := match ps with None => [n] | Some l => l ++ [n] end in
        let h1 := upd h n (set_flag_pars nd FTrue own) in
        fold_opt (fun h' c => plock f h' c (Some pass)) (node_children nd) h1
      end
    end
  end.

(* lock_: `if self._is_locked: return self` (the stored flag, not the derived state of a lazy stack) then _propagate_lock() as a root *)
Definition lock_ (fuel : nat) (h : heap) (n : nat) : option heap :=
  if flag_true h n then Some h else plock fuel h n None.

(* ---- _propagate_unlock: clears the flags of the whole subtree, returns the sub-tensordicts (children first) ------- *)
Fixpoint dict_set (d : list (nat * list nat)) (k : nat) (v : list nat) : list (nat * list nat) :=
  match d with
  | [] => [(k, v)]
  | (k', v') :: r => if Nat.eqb k' k then (k', v) :: r else (k', v') :: dict_set r k v
  end.

(* _is_locked = False.  _is_shared / _is_memmap go through _unset_shared_memmap (D68 repaired): the unlock_() that is running gets
   them back when it ends up refused, so they are cleared for good only by an unlock_() that goes through — see [unshare] *)
Definition clear_node (nd : node) : node := mkNode (nk nd) (ents nd) FFalse (pars nd) (shm nd) (mm nd).

Fixpoint punlock (fuel : nat) (h : heap) (n : nat) : option (heap * list nat) :=
  match fuel with
  | 0 => None
  | S f =>
    match lookup h n with
    | None => Some (h, [])
    | Some nd =>
      match nk nd with
      | KTd =>
        let h1 := upd h n (clear_node nd) in     (* _is_locked = False; self._unset_shared_memmap() *)
        fold_opt (fun (acc : heap * list nat) c =>
                    match punlock f (fst acc) c with
                    | Some (h', sub) => Some (h', snd acc ++ sub ++ [c])
                    | None => None
                    end) (node_children nd) (h1, [])
      | KLazy =>
        let h1 := upd h n (set_flag nd FNone) in  (* _is_locked = None *)
        match fold_opt (fun (acc : heap * list (nat * list nat)) c =>
                    match punlock f (fst acc) c with
                    | Some (h', sub) => Some (h', dict_set (snd acc) c (sub ++ [c]))   (* sub_tds[id(child)] = ... *)
                    | None => None
                    end) (node_children nd) (h1, []) with
        | Some (h', d) => Some (h', flat_map snd d)
        | None => None
        end
      end
    end
  end.

(* ---- _check_unlock: a live, locked (`_is_locked` truthy) parent forbids the unlock; otherwise the list is cleared -- *)
Definition blocked (fuel : nat) (s : st) (n : nat) : option bool :=
  match parents_of fuel (hp s) n with
  | None => None
  | Some l => Some (existsb (fun p => live s p && flag_true (hp s) p) l)
  end.

Definition clear_parents (h : heap) (n : nat) : heap :=
  match lookup h n with
  | Some nd => upd h n (set_pars nd [])        (* TensorDict and lazy stack alike: the stored record is cleared *)
  | None => h
  end.

(* returns (state, raised?) *)
Definition check_unlock (fuel : nat) (s : st) (n : nat) : option (st * bool) :=
  match blocked fuel s n with
  | None => None
  | Some true => Some (s, true)
  | Some false => Some (with_hp s (clear_parents (hp s) n), false)
  end.

Fixpoint check_all (fuel : nat) (s : st) (l : list nat) : option (st * bool) :=
  match l with
  | [] => Some (s, false)
  | x :: r => match check_unlock fuel s x with
              | None => None
              | Some (s', true) => Some (s', true)
              | Some (s', false) => check_all fuel s' r
              end
  end.

Inductive err := ELock | EKey | EOther.
Inductive outcome := Done | Raised (e : err) | Invalid.

(* what _unset_shared_memmap leaves behind on the TensorDicts that _propagate_unlock went through, once the unlock_ is accepted
   (a lazy stack stores neither flag) *)
Definition unshare_node (nd : node) : node :=
  match nk nd with KTd => mkNode (nk nd) (ents nd) (flg nd) (pars nd) false false | KLazy => nd end.
Fixpoint unshare (h : heap) (l : list nat) : heap :=
  match l with
  | [] => h
  | x :: r => unshare (match lookup h x with Some nd => upd h x (unshare_node nd) | None => h end) r
  end.

(* unlock_: propagate, check every sub-tensordict then self; on failure re-lock self, restore the shared / memmap flags (they were
   never dropped here) and re-raise *)
Definition unlock_ (fuel : nat) (s : st) (n : nat) : option (st * outcome) :=
  match punlock fuel (hp s) n with
  | None => None
  | Some (h1, subs) =>
    match check_all fuel (with_hp s h1) (subs ++ [n]) with
    | None => None
    | Some (s2, false) => Some (with_hp s2 (unshare (hp s2) (subs ++ [n])), Done)
    | Some (s2, true) =>
      match lock_ fuel (hp s2) n with
      | None => None
      | Some h3 => Some (with_hp s2 h3, Raised ELock)
      end
    end
  end.

(* ---- allocation ------------------------------------------------------------------------------------------------- *)
Definition empty_td : node := mkNode KTd [] FFalse [] false false.
Definition alloc_node (s : st) (nd : node) : st * nat :=
  (mkSt (hp s ++ [(nxt s, nd)]) (dead s) (S (nxt s)) (writes s), nxt s).
Definition alloc_leaf (s : st) : st * nat := (mkSt (hp s) (dead s) (S (nxt s)) (writes s), nxt s).

Definition exists_live (s : st) (n : nat) : bool :=
  match lookup (hp s) n with Some _ => live s n | None => false end.

Definition kind_of (s : st) (n : nat) : option nkind := option_map nk (lookup (hp s) n).

Definition is_td (s : st) (n : nat) : bool :=
  match lookup (hp s) n with Some nd => match nk nd with KTd => live s n | KLazy => false end | None => false end.
Definition is_lazy (s : st) (n : nat) : bool :=
  match lookup (hp s) n with Some nd => match nk nd with KLazy => live s n | KTd => false end | None => false end.

Definition set_node_ents (s : st) (n : nat) (e : list (string * ref)) : st :=
  match lookup (hp s) n with
  | Some nd => with_hp s (upd (hp s) n (set_ents nd e))
  | None => s
  end.

(* ---- mutators.  Guard classes (utils.lock_blocked / _set_str / _select / none / deliberate) -------------------------- *)
Inductive value := VLeaf | VNode (m : nat) | VNewTd.

Inductive op :=
| OLock (n : nat)
| OUnlock (n : nat)
| OSet (n : nat) (k : string) (v : value)          (* set(k, v) / td[k] = v      -> _set_str(inplace=False): guarded inside *)
| OSetBest (n : nat) (k : string)                  (* set(k, tensor, inplace=True): in place when present, else as OSet *)
| OSetInplace (n : nat) (k : string)               (* set_(k, tensor): value write, KeyError when absent *)
| ODel (hn n : nat) (k : string)                   (* del_ issued at handle hn, landing at node n: lock_blocked at both *)
| OPop (hn n : nat) (k : string)                   (* pop = get (KeyError first) then del_ *)
| ORename (n : nat) (k k' : string) (safe : bool)  (* rename_key_: lock_blocked *)
| OClear (n : nat)                                 (* clear: lock_blocked *)
| OPopitem (n : nat)                               (* popitem: lock_blocked; removes the last entry *)
| OSelect (n : nat) (ks : list string)             (* select(ks.., inplace=True): guarded in _select *)
| OExclude (n : nat) (ks : list string)            (* exclude(ks.., inplace=True): guarded in _exclude *)
| OAppend (l m : nat)                              (* LazyStackedTensorDict.append: lock_blocked on the derived state *)
| OInsert (l i m : nat)                            (* LazyStackedTensorDict.insert *)
| ONewLazy (ms : list nat)                         (* lazy_stack([...]) *)
| ONewTd                                           (* TensorDict({}, bs) *)
| OMemmap (n : nat)                                (* memmap_(): documented storage conversion; locks from the root afterwards *)
| OShare (n : nat)                                 (* share_memory_() *)
| OPickle (n : nat)                                (* pickle.loads(pickle.dumps(n)) *)
| OMakeMemmap (n : nat) (k : string)               (* make_memmap: documented exception, adds an entry under lock *)
| OGc (ds : list nat).                             (* the objects ds were collected *)

Definition resolve_value (s : st) (v : value) : option (st * ref) :=
  match v with
  | VLeaf => let '(s', l) := alloc_leaf s in Some (s', RLeaf l)
  | VNewTd => let '(s', m) := alloc_node s empty_td in Some (s', RNode m)
  | VNode m => if exists_live s m then Some (s, RNode m) else None
  end.

Definition log_write (s : st) (l : nat) : st := mkSt (hp s) (dead s) (nxt s) (l :: writes s).

Fixpoint dedup_keys (ks : list string) (seen : list string) : list string :=
  match ks with
  | [] => []
  | k :: r => if existsb (String.eqb k) seen then dedup_keys r seen else k :: dedup_keys r (k :: seen)
  end.

Fixpoint select_ents (e : list (string * ref)) (ks : list string) : option (list (string * ref)) :=
  match ks with
  | [] => Some []
  | k :: r => match ents_get e k, select_ents e r with
              | Some v, Some t => Some ((k, v) :: t)
              | _, _ => None
              end
  end.

Definition td_flag (s : st) (n : nat) : bool := flag_true (hp s) n.      (* TensorDict.is_locked = _is_locked *)

(* ---- _memmap_(inplace=True) --------------------------------------------------------------------------------------- *)
(* returns (state, raised?) ; leaves are rebound to fresh MemoryMappedTensor objects *)
Fixpoint pmemmap (fuel : nat) (s : st) (n : nat) : option (st * bool) :=
  match fuel with
  | 0 => None
  | S f =>
    match lookup (hp s) n with
    | None => Some (s, false)
    | Some nd =>
      match nk nd with
      | KTd =>
        if shm nd then Some (s, true)    (* "memmap and shared memory are mutually exclusive features." *)
        else
          let s1 := with_hp s (upd (hp s) n (mkNode KTd (ents nd) (flg nd) (pars nd) false true)) in
          match fold_opt (fun (acc : st * bool) (e : string * ref) =>
                   if snd acc then Some acc else
                   match snd e with
                   | RLeaf _ =>
                       let '(s', l) := alloc_leaf (fst acc) in
                       match lookup (hp s') n with
                       | Some nd' => Some (with_hp s' (upd (hp s') n (set_ents nd' (ents_set (ents nd') (fst e) (RLeaf l)))), false)
                       | None => Some (s', false)
                       end
                   | RNode c => pmemmap f (fst acc) c
                   end) (ents nd) (s1, false) with
          | None => None
          | Some (s2, true) => Some (s2, true)
          | Some (s2, false) => Some (s2, false)     (* the lock is registered from the root once the whole tree is converted *)
          end
      | KLazy =>
        fold_opt (fun (acc : st * bool) c => if snd acc then Some acc else pmemmap f (fst acc) c) (node_children nd) (s, false)
      end
    end
  end.

(* ---- share_memory_() ----------------------------------------------------------------------------------------------- *)
Fixpoint pshare (lf fuel : nat) (s : st) (n : nat) : option (st * bool) :=
  match fuel with
  | 0 => None
  | S f =>
    match lookup (hp s) n with
    | None => Some (s, false)
    | Some nd =>
      match nk nd with
      | KTd =>
        if mm nd then Some (s, true)
        else
          match fold_opt (fun (acc : st * bool) c => if snd acc then Some acc else pshare lf f (fst acc) c) (node_children nd) (s, false) with
          | None => None
          | Some (s2, true) => Some (s2, true)
          | Some (s2, false) =>
              match lookup (hp s2) n with
              | Some nd2 =>
                  let h3 := upd (hp s2) n (set_shm nd2 true) in
                  match lock_ lf h3 n with Some h4 => Some (with_hp s2 h4, false) | None => None end
              | None => Some (s2, false)
              end
          end
      | KLazy =>
          match fold_opt (fun (acc : st * bool) c => if snd acc then Some acc else pshare lf f (fst acc) c) (node_children nd) (s, false) with
          | None => None
          | Some (s2, true) => Some (s2, true)
          | Some (s2, false) => match lock_ lf (hp s2) n with Some h4 => Some (with_hp s2 h4, false) | None => None end
          end
      end
    end
  end.

(* ---- pickle round trip: copy (memoised, children first), then __setstate__ re-locks each node that was locked ------- *)
Fixpoint memo_get (m : list (nat * nat)) (n : nat) : option nat :=
  match m with [] => None | (a, b) :: r => if Nat.eqb a n then Some b else memo_get r n end.

Fixpoint pcopy (lf fuel : nat) (s : st) (memo : list (nat * nat)) (n : nat) : option (st * list (nat * nat) * nat) :=
  match fuel with
  | 0 => None
  | S f =>
    match memo_get memo n with
    | Some c => Some (s, memo, c)
    | None =>
      match lookup (hp s) n with
      | None => None
      | Some nd =>
        match fold_opt (fun (acc : st * list (nat * nat) * list (string * ref)) (e : string * ref) =>
                 let '(s0, m0, es) := acc in
                 match snd e with
                 | RLeaf _ => let '(s', l) := alloc_leaf s0 in Some (s', m0, es ++ [(fst e, RLeaf l)])
                 | RNode c => match pcopy lf f s0 m0 c with
                              | Some (s', m', c') => Some (s', m', es ++ [(fst e, RNode c')])
                              | None => None
                              end
                 end) (ents nd) (s, memo, []) with
        | None => None
        | Some (s1, m1, es) =>
            (* __getstate__ drops __lock_parents_weakrefs; __setstate__: if self._is_locked: self._is_locked = False; self.lock_() *)
            let relock := flag_is_true (flg nd) in
            let nd' := mkNode (nk nd) es (if relock then FFalse else flg nd) [] (shm nd) (mm nd) in
            let '(s2, c) := alloc_node s1 nd' in
            if relock then
              match lock_ lf (hp s2) c with
              | Some h3 => Some (with_hp s2 h3, (n, c) :: m1, c)
              | None => None
              end
            else Some (s2, (n, c) :: m1, c)
        end
      end
    end
  end.

(* ---- one public call -------------------------------------------------------------------------------------------------- *)
Definition gc_ok (s : st) (ds : list nat) : bool :=
  forallb (fun n => match lookup (hp s) n with Some _ => true | None => false end) ds &&
  forallb (fun e : nat * node =>
             let n := fst e in
             if memb n ds || memb n (dead s) then true
             else forallb (fun c => negb (memb c ds)) (node_children (snd e))) (hp s).

Fixpoint insert_at {A} (l : list A) (i : nat) (x : A) : list A :=
  match i, l with
  | 0, _ => x :: l
  | S j, [] => [x]
  | S j, y :: r => y :: insert_at r j x
  end.

Definition step (fuel : nat) (s : st) (o : op) : option (st * outcome) :=
  match o with
  | OLock n =>
      if negb (exists_live s n) then Some (s, Invalid) else
      match lock_ fuel (hp s) n with Some h => Some (with_hp s h, Done) | None => None end
  | OUnlock n =>
      if negb (exists_live s n) then Some (s, Invalid) else unlock_ fuel s n
  | OSet n k v =>
      if negb (is_td s n) then Some (s, Invalid) else
      match resolve_value s v with
      | None => Some (s, Invalid)
      | Some (s1, r) =>
          if td_flag s n then Some (s, Raised ELock)          (* _set_str: `if self._is_locked and not ignore_lock: raise` *)
          else match lookup (hp s1) n with
               | Some nd => Some (set_node_ents s1 n (ents_set (ents nd) k r), Done)
               | None => Some (s, Invalid)
               end
      end
  | OSetBest n k =>
      if negb (is_td s n) then Some (s, Invalid) else
      match lookup (hp s) n with
      | None => Some (s, Invalid)
      | Some nd =>
          match ents_get (ents nd) k with
          | Some (RLeaf l) => Some (log_write s l, Done)      (* _convert_inplace: key present -> dest.copy_(value) *)
          | Some (RNode _) => Some (s, Invalid)
          | None =>
              if td_flag s n then Some (s, Raised ELock)
              else let '(s1, l) := alloc_leaf s in Some (set_node_ents s1 n (ents_set (ents nd) k (RLeaf l)), Done)
          end
      end
  | OSetInplace n k =>
      if negb (is_td s n) then Some (s, Invalid) else
      match lookup (hp s) n with
      | None => Some (s, Invalid)
      | Some nd =>
          match ents_get (ents nd) k with
          | Some (RLeaf l) => Some (log_write s l, Done)
          | Some (RNode _) => Some (s, Invalid)
          | None => Some (s, Raised EKey)
          end
      end
  | ODel hn n k =>
      if negb (is_td s n && is_td s hn) then Some (s, Invalid) else
      if td_flag s hn then Some (s, Raised ELock) else
      if td_flag s n then Some (s, Raised ELock) else
      match lookup (hp s) n with
      | None => Some (s, Invalid)
      | Some nd => if ents_has (ents nd) k then Some (set_node_ents s n (ents_del (ents nd) k), Done)
                   else Some (s, Raised EKey)
      end
  | OPop hn n k =>
      if negb (is_td s n && is_td s hn) then Some (s, Invalid) else
      match lookup (hp s) n with
      | None => Some (s, Invalid)
      | Some nd =>
          if negb (ents_has (ents nd) k) then Some (s, Raised EKey) else     (* self.get(key, NO_DEFAULT) comes first *)
          if td_flag s hn then Some (s, Raised ELock) else
          if td_flag s n then Some (s, Raised ELock) else
          Some (set_node_ents s n (ents_del (ents nd) k), Done)
      end
  | ORename n k k' safe =>
      if negb (is_td s n) then Some (s, Invalid) else
      if td_flag s n then Some (s, Raised ELock) else
      match lookup (hp s) n with
      | None => Some (s, Invalid)
      | Some nd =>
          if String.eqb k k' then (if ents_has (ents nd) k then Some (s, Done) else Some (s, Raised EKey)) else
          if safe && ents_has (ents nd) k' then Some (s, Raised EKey) else
          match ents_get (ents nd) k with
          | None => Some (s, Raised EKey)
          | Some r => Some (set_node_ents s n (ents_del (ents_set (ents nd) k' r) k), Done)
          end
      end
  | OClear n =>
      if negb (is_td s n) then Some (s, Invalid) else
      if td_flag s n then Some (s, Raised ELock) else Some (set_node_ents s n [], Done)
  | OPopitem n =>
      if negb (is_td s n) then Some (s, Invalid) else
      if td_flag s n then Some (s, Raised ELock) else
      match lookup (hp s) n with
      | None => Some (s, Invalid)
      | Some nd => match ents nd with
                   | [] => Some (s, Raised EKey)
                   | e => Some (set_node_ents s n (removelast e), Done)
                   end
      end
  | OSelect n ks =>
      if negb (is_td s n) then Some (s, Invalid) else
      if td_flag s n then Some (s, Raised ELock) else          (* _select: `if inplace and self.is_locked: raise` *)
      match lookup (hp s) n with
      | None => Some (s, Invalid)
      | Some nd => match select_ents (ents nd) (dedup_keys ks []) with
                   | Some e => Some (set_node_ents s n e, Done)
                   | None => Some (s, Raised EKey)
                   end
      end
  | OExclude n ks =>
      if negb (is_td s n) then Some (s, Invalid) else
      if td_flag s n then Some (s, Raised ELock) else          (* _exclude: `if inplace and self.is_locked: raise` *)
      match lookup (hp s) n with
      | None => Some (s, Invalid)
      | Some nd => Some (set_node_ents s n (fold_left ents_del ks (ents nd)), Done)
      end
  | OAppend l m =>
      if negb (is_lazy s l && exists_live s m) then Some (s, Invalid) else
      match is_locked fuel (hp s) l with
      | None => None
      | Some true => Some (s, Raised ELock)
      | Some false =>
          match lookup (hp s) l with
          | Some nd => Some (set_node_ents s l (ents nd ++ [(""%string, RNode m)]), Done)
          | None => Some (s, Invalid)
          end
      end
  | OInsert l i m =>
      if negb (is_lazy s l && exists_live s m) then Some (s, Invalid) else
      match is_locked fuel (hp s) l with
      | None => None
      | Some true => Some (s, Raised ELock)
      | Some false =>
          match lookup (hp s) l with
          | Some nd => Some (set_node_ents s l (insert_at (ents nd) i (""%string, RNode m)), Done)
          | None => Some (s, Invalid)
          end
      end
  | ONewLazy ms =>
      if forallb (exists_live s) ms
      then Some (fst (alloc_node s (mkNode KLazy (map (fun m => (""%string, RNode m)) ms) FNone [] false false)), Done)
      else Some (s, Invalid)
  | ONewTd => Some (fst (alloc_node s empty_td), Done)
  | OMemmap n =>
      if negb (exists_live s n) then Some (s, Invalid) else
      match pmemmap fuel s n with
      | None => None
      | Some (s1, true) => Some (s1, Raised EOther)
      | Some (s1, false) =>      (* _lock_graph: _propagate_lock() from the root, whatever the flags *)
          match plock fuel (hp s1) n None with Some h => Some (with_hp s1 h, Done) | None => None end
      end
  | OShare n =>
      if negb (exists_live s n) then Some (s, Invalid) else
      match pshare fuel fuel s n with
      | None => None
      | Some (s1, true) => Some (s1, Raised EOther)
      | Some (s1, false) => Some (s1, Done)
      end
  | OPickle n =>
      if negb (exists_live s n) then Some (s, Invalid) else
      match pcopy fuel fuel s [] n with
      | None => None
      | Some (s1, _, _) => Some (s1, Done)
      end
  | OMakeMemmap n k =>
      if negb (is_td s n) then Some (s, Invalid) else
      match lookup (hp s) n with
      | None => Some (s, Invalid)
      | Some nd =>
          if negb (mm nd) then Some (s, Raised EOther) else
          if ents_has (ents nd) k then Some (s, Raised EOther) else
          let '(s1, l) := alloc_leaf s in Some (set_node_ents s1 n (ents_set (ents nd) k (RLeaf l)), Done)
      end
  | OGc ds =>
      if gc_ok s ds then Some (mkSt (hp s) (ds ++ dead s) (nxt s) (writes s), Done) else Some (s, Invalid)
  end.

(* a history: the extracted driver uses ff s = |heap| + 3; theorems hold for any fuel policy ff *)
Definition auto_fuel (s : st) : nat := S (S (S (List.length (hp s)))).
Fixpoint run (ff : st -> nat) (s : st) (ops : list op) : option (st * list outcome) :=
  match ops with
  | [] => Some (s, [])
  | o :: r => match step (ff s) s o with
              | None => None
              | Some (s1, out) => match run ff s1 r with
                                  | Some (s2, outs) => Some (s2, out :: outs)
                                  | None => None
                                  end
              end
  end.

Definition init : st := mkSt [] [] 0 [].
