(* Model (definitions only): the element level of the shape operations.
   [e_src o s r]: the torch call o, made on a tensor of shape s, puts at position r of its result the element at
   position [e_src o s r] of the tensor (Spec/C02_TorchElem per operation; None = torch refuses the call).
   [leaf_calls t o]: the torch calls that tensordict's method o makes on the tensors of the tree t, with the shape of the
   tensor each is made on -- the same recursion as [apply] (Model/C02_ShapeOps), collecting instead of computing. *)
From Coq Require Import ZArith List Bool String.
Import ListNotations.
From TD Require Import Spec.PySlice Spec.C02_TorchShape Spec.C02_TorchElem Model.C02_ShapeOps.
Open Scope Z_scope.

Definition e_src (o : sop) (s r : list Z) : option (list Z) :=
  match o with
  | OExpand tgt => Some (e_expand s (List.length tgt) r)
  | ORepeat reps => Some (e_repeat s (List.length reps) r)
  | ORepInt rep d => match wrap_dim d (List.length s) with Ok i => Some (e_repint rep i r) | Reject => None end
  | OPermute dims =>
      match mapM (fun d => wrap_dim d (List.length s)) dims with Ok p => Some (e_permute p r) | Reject => None end
  | OTranspose a b =>
      match wrap_dim_scalar a (List.length s), wrap_dim_scalar b (List.length s) with
      | Ok i, Ok j => Some (e_transpose i j r)
      | _, _ => None
      end
  | _ => match leaf_op o s with Done s' => Some (e_reshape s s' r) | _ => None end
  end.

Fixpoint leaf_calls (t : tree) (o : sop) {struct t} : list (sop * list Z) :=
  match t with
  | Leaf sh => [(o, sh)]
  | Node bs nm ents =>
      match node_step o bs nm with
      | Done (SStep _ _ child) =>
          (fix go (l : list (string * tree)) : list (sop * list Z) :=
             match l with
             | [] => []
             | (_, c) :: r => leaf_calls c (child (top_shape c)) ++ go r
             end) ents
      | _ => []
      end
  end.

(* for the validation against torch: the row-major source position of every result position, in row-major order *)
Definition e_table (o : sop) (s s' : list Z) : option (list Z) :=
  fold_right (fun r acc => match e_src o s r, acc with Some v, Some l => Some (ravel v s :: l) | _, _ => None end)
             (Some []) (all_indices s').
