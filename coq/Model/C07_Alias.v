(* C07 — the public operations as heap transformers, classified by the code path they take (definitions only).
   Transcribed from tensordict/_td.py (_set_str 2409, _set_tuple 2470, _set_at_str 2511, __setitem__ 808, _index_tensordict 1561,
   _unbind/split 1666-1787, _clone 3229, contiguous 3249, _select 3276, _exclude 3328, masked_fill_ 3219) and
   tensordict/base.py (set 6134, set_ 6381, set_at_ 6338, update 6602, update_ 6849, update_at_ 6954, copy_ 7126,
   fill_ 12449, zero_ 12440, apply_ 8245, in-place arithmetic 9344-11170 via _values_list / torch._foreach_*_,
   _clone_recurse 10096, to_tensordict 11551, clone 11585, flatten_keys 12576).
   A program is a list of instructions over a register file of handles (refs) the caller holds. *)
From Coq Require Import ZArith List String Bool Arith PeanoNat.
Import ListNotations.
From TD Require Import Model.C07_Heap.
Open Scope string_scope.

Record st := mkSt { hp : heap; regs : list ref }.

Inductive tri := IFalse | ITrue | IBest.          (* inplace=False / True (set_) / BEST_ATTEMPT_INPLACE *)

Inductive pf := PNeg | PAbs | PAddC (c : Z) | PMulC (c : Z) | PConst (c : Z).
Definition apf (f : pf) (z : Z) : Z :=
  match f with PNeg => (- z)%Z | PAbs => Z.abs z | PAddC c => (z + c)%Z | PMulC c => (z * c)%Z | PConst c => c end.
Inductive bf := BAdd | BSub | BMul | BMax | BMin | BSnd.
Definition abf (f : bf) (a b : Z) : Z :=
  match f with BAdd => (a + b)%Z | BSub => (a - b)%Z | BMul => (a * b)%Z | BMax => Z.max a b | BMin => Z.min a b | BSnd => b end.

Fixpoint map2 {A B C} (f : A -> B -> C) (l : list A) (m : list B) : list C :=
  match l, m with a :: l', b :: m' => f a b :: map2 f l' m' | _, _ => [] end.

(* ------------------------------------------------------------------ sequences of in-place writes *)
Inductive wsrc := WUn (f : pf) | WBin (f : bf) (o : view) | WVals (l : list Z).
Definition wvals (h : heap) (v : view) (s : wsrc) : list Z :=
  match s with
  | WUn f => map (apf f) (read h v)
  | WBin f o => map2 (abf f) (read h v) (read h o)
  | WVals l => l
  end.
(* chk: the kernel refuses views with internal overlap (copy_, _foreach_* arithmetic); fill_/zero_/masked_fill_/index_put_ do not *)
Definition write_c (chk : bool) (h : heap) (v : view) (vals : list Z) : heap * outcome :=
  if chk then write h v vals
  else if negb (Nat.eqb (List.length vals) (List.length (vcells v))) then (h, Raised EShape)
  else (set_stor h (vsid v) (wr_cells (get_stor h (vsid v)) (vcells v) vals), Done).
Fixpoint write_list (chk : bool) (h : heap) (l : list (view * wsrc)) : heap * outcome :=
  match l with
  | [] => (h, Done)
  | (v, s) :: t =>
      match write_c chk h v (wvals h v s) with
      | (h', Done) => write_list chk h' t
      | bad => bad
      end
  end.

Definition leaves_of (h : heap) (r : ref) : option (list (path * view)) := leaves (fuel_of h) h r [].
Definition keys_of (h : heap) (r : ref) : option (list path) := allkeys (fuel_of h) h r [].

(* pair the leaves of the destination with those of [other] BY KEY (sorting_keys); None = a key is missing *)
Fixpoint pair_all (ls : list (path * view)) (lo : list (path * view)) : option (list (view * view)) :=
  match ls with
  | [] => Some []
  | (p, v) :: t =>
      match assoc_path lo p, pair_all t lo with
      | Some o, Some r => Some ((v, o) :: r)
      | _, _ => None
      end
  end.
(* intersection in the order of the destination's keys (default="intersection") *)
Fixpoint pair_inter (ls : list (path * view)) (lo : list (path * view)) : list (view * view) :=
  match ls with
  | [] => []
  | (p, v) :: t => match assoc_path lo p with Some o => (v, o) :: pair_inter t lo | None => pair_inter t lo end
  end.

(* ------------------------------------------------------------------ rebinding primitives *)
Definition bind (h : heap) (n : nat) (k : string) (r : ref) : heap * outcome :=
  match get_node h n with
  | None => (h, Raised EType)
  | Some nd => if nlock nd then (h, Raised ELock)
               else (set_node h n (mkNode (ents_set (nents nd) k r) (nlock nd)), Done)
  end.

(* update_ (base.py:6849): the _foreach_copy_ fast path on the intersection of the leaf keys *)
Definition update_u (h : heap) (dst src : ref) : heap * outcome :=
  match leaves_of h dst, leaves_of h src with
  | Some ls, Some lo =>
      match pair_inter ls lo with
      | [] => match lo with [] => (h, Done) | _ => (h, Raised EKey) end
      | prs => write_list true h (map (fun vo => (fst vo, WBin BSnd (snd vo))) prs)
      end
  | _, _ => (h, Raised EFuel)
  end.

Definition empty_node (h : heap) (r : ref) : bool :=
  match r with
  | RNode m => match get_node h m with Some nd => match nents nd with [] => true | _ => false end | None => false end
  | RLeaf _ => false
  end.

(* map the entries of one node in insertion order, threading the heap; fe = filter_empty (the binary arithmetic
   family): nested results without any leaf are dropped *)
Fixpoint map_ents (rec : heap -> ref -> path -> option (heap * ref)) (fe : bool) (pre : path) (h0 : heap)
  (es : list (string * ref)) : option (heap * list (string * ref)) :=
  match es with
  | [] => Some (h0, [])
  | (k, r') :: t =>
      match rec h0 r' (pre ++ [k])%list with
      | None => None
      | Some (h1, r1) =>
          match map_ents rec fe pre h1 t with
          | Some (h2, t2) => Some (h2, if fe && empty_node h1 r1 then t2 else (k, r1) :: t2)
          | None => None
          end
      end
  end.

(* a tree transformer that keeps the key structure and maps every leaf: new nodes at every level
   (_fast_apply / _index_tensordict / _clone ...); propagate_lock comes in two forms: ln — every new node is
   locked iff the node it comes from is (shape operations: the method is applied again on every nested tensordict); lk — every new
   node is locked (arithmetic: result.lock_() when the receiver itself is locked) *)
Fixpoint map_tree (fuel : nat) (lk ln fe : bool) (leaff : path -> heap -> view -> heap * view) (h : heap) (r : ref) (pre : path)
  : option (heap * ref) :=
  match fuel with
  | 0 => None
  | S f =>
      match r with
      | RLeaf v => let '(h1, v1) := leaff pre h v in Some (h1, RLeaf v1)
      | RNode n =>
          match get_node h n with
          | None => None
          | Some nd =>
              match map_ents (map_tree f lk ln fe leaff) fe pre h (nents nd) with
              | None => None
              | Some (h1, es1) => let '(h2, m) := alloc_node h1 (mkNode es1 (lk || (ln && nlock nd))) in Some (h2, RNode m)
              end
          end
      end
  end.

Definition lf_same (_ : path) (h : heap) (v : view) : heap * view := (h, v).
Definition lf_copy (_ : path) (h : heap) (v : view) : heap * view := fresh_like h v (read h v).
Definition lf_sub (nb : nat) (bsel : list nat) (_ : path) (h : heap) (v : view) : heap * view := (h, subview v nb bsel).
Definition lf_gather (nb : nat) (bsel : list nat) (_ : path) (h : heap) (v : view) : heap * view :=
  fresh_leaf h (read h (subview v nb bsel)).
Definition lf_un (f : pf) (_ : path) (h : heap) (v : view) : heap * view := fresh_like h v (map (apf f) (read h v)).
Definition lf_contig (_ : path) (h : heap) (v : view) : heap * view :=
  if contiguousb v then (h, v) else fresh_leaf h (read h v).
(* deep copy of a value: fresh storages for the leaves, fresh nodes (clone(True)) *)
Definition deep_clone (fuel : nat) (h : heap) (r : ref) : option (heap * ref) := map_tree fuel false false false lf_copy h r [].

(* the receiver's leaf combined with the operand's leaf OF THE SAME KEY (the operand list is aligned by sorting_keys) *)
Definition lf_bin (f : bf) (lo : list (path * view)) (p : path) (h : heap) (v : view) : heap * view :=
  match assoc_path lo p with
  | Some o => fresh_like h v (map2 (abf f) (read h v) (read h o))
  | None => fresh_like h v (read h v)
  end.

(* update (base.py:6602), TensorDict target and TensorDict source of the same batch size *)
Section SetUpdate.
(* _set_str (_td.py:2409).  [upd] is update(value, inplace=True) on a nested destination (BEST_ATTEMPT branch) *)
Definition set_str (upd : heap -> nat -> nat -> heap * outcome) (h : heap) (n : nat) (k : string) (val : ref) (inpl : tri)
  : heap * outcome :=
  match get_node h n with
  | None => (h, Raised EType)
  | Some nd =>
      let has := ents_has (nents nd) k in
      let go_inplace (best : bool) :=
        match ents_get (nents nd) k, val with
        | Some (RLeaf d), RLeaf v => if view_eqb d v then (h, Done) else write_c true h d (read h v)
        | Some (RNode d), RNode v => if best then upd h d v else update_u h (RNode d) (RNode v)
        | _, _ => (h, Raised EType)
        end in
      match inpl with
      | IFalse => bind h n k val
      | ITrue => if has then go_inplace false else (h, Raised EKey)
      | IBest => if has then go_inplace true else bind h n k val
      end
  end.

(* _set_tuple (_td.py:2470): a missing intermediate node is created and the write becomes a rebinding one — except for
   set_ (inplace=True), which needs an existing entry and raises KeyError (repair of D75, fixes/C07/D75.diff).
   fixed_D75 := false gives the behaviour before the repair (the node was created whatever [inpl] said); the theorem
   C07_set_keeps does not hold for it. *)
Definition fixed_D75 : bool := true.
Definition is_true (t : tri) : bool := match t with ITrue => true | _ => false end.
Fixpoint set_tuple (upd : heap -> nat -> nat -> heap * outcome) (h : heap) (n : nat) (p : path) (val : ref) (inpl : tri)
  : heap * outcome :=
  match p with
  | [] => (h, Raised EKey)
  | [k] => set_str upd h n k val inpl
  | k :: p' =>
      match get_node h n with
      | None => (h, Raised EType)
      | Some nd =>
          match ents_get (nents nd) k with
          | Some (RNode m) => set_tuple upd h m p' val inpl
          | Some (RLeaf _) => (h, Raised EKey)
          | None =>
              if fixed_D75 && is_true inpl then (h, Raised EKey)
              else
              let '(h1, m) := alloc_node h (mkNode [] false) in
              match bind h1 n k (RNode m) with
              | (h2, Done) => set_tuple upd h2 m p' val IFalse
              | bad => bad
              end
          end
      end
  end.
End SetUpdate.

Fixpoint fold_out {A} (stepf : heap -> A -> heap * outcome) (h : heap) (l : list A) : heap * outcome :=
  match l with
  | [] => (h, Done)
  | x :: t => match stepf h x with (h1, Done) => fold_out stepf h1 t | bad => bad end
  end.

(* one (key, value) item of the source in update's loop *)
Definition upd_entry (rec rec_best : heap -> nat -> nat -> heap * outcome) (clone inpl : bool) (dst : nat)
  (h0 : heap) (kv : string * ref) : heap * outcome :=
  let '(k, v) := kv in
  match (if clone then deep_clone (fuel_of h0) h0 v else Some (h0, v)) with
  | None => (h0, Raised EFuel)
  | Some (h1, v1) =>
      let target := match get_node h1 dst with Some nd1 => ents_get (nents nd1) k | None => None end in
      match target, v1 with
      | Some (RNode t_), RNode s_ => rec h1 t_ s_
      | _, _ => set_str rec_best h1 dst k v1 (if inpl then IBest else IFalse)
      end
  end.

Fixpoint update_n (fuel : nat) (clone inpl : bool) (h : heap) (dst src : nat) : heap * outcome :=
  match fuel with
  | 0 => (h, Raised EFuel)
  | S f =>
      match get_node h dst, get_node h src with
      | Some nd, Some ns =>
          if nlock nd && negb inpl then (h, Raised ELock)          (* @lock_blocked: not blocked when inplace=True is passed *)
          else if Nat.eqb dst src then (h, Done)
          else fold_out (upd_entry (update_n f clone inpl) (update_n f false true) clone inpl dst) h (nents ns)
      | _, _ => (h, Raised EType)
      end
  end.

Definition upd_best (h : heap) (d s : nat) : heap * outcome := update_n (fuel_of h) false true h d s.

(* ------------------------------------------------------------------ instructions *)
Inductive instr :=
  (* allocation / reading *)
  | INewT (content : list Z) (cells : list nat)
  | INewTD (ents : list (string * nat))
  | IGet (r : nat) (p : path)
  (* documented in-place *)
  | ISetU (r : nat) (p : path) (v : nat)                         (* set_ *)
  | IUpdU (r src : nat)                                          (* update_ / copy_ *)
  | ISetAt (r : nat) (p : path) (v : nat) (nb : nat) (bsel : list nat)   (* set_at_ *)
  | IUpdAt (r src : nat) (nb : nat) (bsel : list nat)            (* update_at_ / copy_at_ / td[idx] = td (existing keys) *)
  | ISetItemSc (r : nat) (z : Z) (nb : nat) (bsel : list nat)    (* td[idx] = scalar / masked_fill_ *)
  | IFill (r : nat) (p : path) (z : Z)                           (* fill_ *)
  | IConstU (r : nat) (z : Z)                                    (* zero_ *)
  | IUnaryU (r : nat) (f : pf)                                   (* neg_, abs_, add_(c), mul_(c), apply_ *)
  | IBinaryU (r : nat) (f : bf) (src : nat)                      (* add_(td) ... *)
  (* in-place when the key exists, rebinding otherwise *)
  | ISet (r : nat) (p : path) (v : nat) (inpl : tri)             (* set / set(inplace=True) *)
  | IUpdate (r src : nat) (clone inpl : bool)                    (* update *)
  (* structure *)
  | IDel (r : nat) (p : path)
  | ILock (r : nat) (b : bool)
  (* views *)
  | IViewB (r : nat) (nb : nat) (bsel : list nat) (pl : bool)    (* basic index, unbind/split pieces (pl = false); permute,
                                                                    transpose, squeeze, unsqueeze, expand, view (propagate_lock) *)
  | ISelect (r : nat) (ks : list string)
  | IExclude (r : nat) (ks : list string)
  | IShallow (r : nat)                                           (* copy() / clone(False) *)
  | IFlatten (r : nat) (sep : string)                            (* flatten_keys *)
  (* fresh results *)
  | IClone (r : nat)                                             (* clone / to_tensordict *)
  | IGather (r : nat) (nb : nat) (bsel : list nat)               (* advanced indexing / masked_select *)
  | IUnary (r : nat) (f : pf) (pl fe : bool)                     (* neg, abs (pl, no filter); add(c), mul(c) (pl, filter_empty);
                                                                    apply(fn) (neither) *)
  | IBinary (r : nat) (f : bf) (src : nat)
  | IContig (r : nat).                                           (* contiguous: what torch does on the leaf *)

Inductive cls := CAlloc | CInplace | CBest | CStruct | CView | CCopy | CRule.
Definition classify (i : instr) : cls :=
  match i with
  | INewT _ _ | INewTD _ | IGet _ _ => CAlloc
  | ISetU _ _ _ | IUpdU _ _ | ISetAt _ _ _ _ _ | IUpdAt _ _ _ _ | ISetItemSc _ _ _ _ | IFill _ _ _ | IConstU _ _
  | IUnaryU _ _ | IBinaryU _ _ _ => CInplace
  | ISet _ _ _ IFalse => CStruct
  | ISet _ _ _ _ => CBest
  | IUpdate _ _ _ false => CStruct
  | IUpdate _ _ _ true => CBest
  | IDel _ _ | ILock _ _ => CStruct
  | IViewB _ _ _ _ | ISelect _ _ | IExclude _ _ | IShallow _ | IFlatten _ _ => CView
  | IClone _ | IGather _ _ _ | IUnary _ _ _ _ | IBinary _ _ _ => CCopy
  | IContig _ => CRule
  end.

Definition reg (s : st) (r : nat) : option ref := nth_error (regs s) r.
Definition push (s : st) (h : heap) (r : ref) : st := mkSt h (regs s ++ [r]).
Definition with_h (s : st) (h : heap) : st := mkSt h (regs s).

Fixpoint regs_get (rs : list ref) (l : list (string * nat)) : option (list (string * ref)) :=
  match l with
  | [] => Some []
  | (k, i) :: t => match nth_error rs i, regs_get rs t with Some r, Some t' => Some ((k, r) :: t') | _, _ => None end
  end.

Definition memb_s (k : string) (l : list string) : bool := existsb (String.eqb k) l.

Fixpoint join (sep : string) (p : path) : string :=
  match p with [] => "" | [k] => k | k :: t => k ++ sep ++ join sep t end.

(* every node reachable from r (for lock_) *)
Fixpoint nodes_below (fuel : nat) (h : heap) (r : ref) : option (list nat) :=
  match fuel with
  | 0 => None
  | S f =>
      match r with
      | RLeaf _ => Some []
      | RNode n =>
          match get_node h n with
          | None => None
          | Some nd => match concat_opt (map (fun kr => nodes_below f h (snd kr)) (nents nd)) with
                       | Some l => Some (n :: l) | None => None end
          end
      end
  end.

Definition at_writes (h : heap) (dst : ref) (lo : list (path * view)) (nb : nat) (bsel : list nat)
  : option (list (view * wsrc)) :=
  (fix go (l : list (path * view)) : option (list (view * wsrc)) :=
     match l with
     | [] => Some []
     | (p, o) :: t =>
         match resolve h dst p, go t with
         | Some (RLeaf d), Some r => Some ((subview d nb bsel, WVals (read h o)) :: r)
         | _, _ => None
         end
     end) lo.

Definition root_locked (h : heap) (r : ref) : bool :=
  match r with RNode n => match get_node h n with Some nd => nlock nd | None => false end | RLeaf _ => false end.

Definition step (s : st) (i : instr) : st * outcome :=
  let h := hp s in
  let fail e := (s, Raised e) in
  let fin (x : heap * outcome) := (with_h s (fst x), snd x) in
  match i with
  | INewT content cells =>
      let '(h1, sid) := alloc_stor h content in (push s h1 (RLeaf (mkView sid cells)), Done)
  | INewTD ents =>
      match regs_get (regs s) ents with
      | Some es => let '(h1, n) := alloc_node h (mkNode es false) in (push s h1 (RNode n), Done)
      | None => fail EType
      end
  | IGet r p =>
      match reg s r with
      | Some x => match resolve h x p with Some y => (push s h y, Done) | None => fail EKey end
      | None => fail EType
      end
  | ISetU r p v =>
      match reg s r, reg s v with
      | Some (RNode n), Some val => fin (set_tuple upd_best h n p val ITrue)
      | _, _ => fail EType
      end
  | ISet r p v inpl =>
      match reg s r, reg s v with
      | Some (RNode n), Some val => fin (set_tuple upd_best h n p val inpl)
      | _, _ => fail EType
      end
  | IUpdU r src =>
      match reg s r, reg s src with
      | Some d, Some o => fin (update_u h d o)
      | _, _ => fail EType
      end
  | IUpdate r src clone inpl =>
      match reg s r, reg s src with
      | Some (RNode d), Some (RNode o) => fin (update_n (fuel_of h) clone inpl h d o)
      | _, _ => fail EType
      end
  | ISetAt r p v nb bsel =>
      match reg s r, reg s v with
      | Some d, Some (RLeaf o) =>
          match resolve h d p with
          | Some (RLeaf dl) => fin (write_c false h (subview dl nb bsel) (read h o))
          | _ => fail EKey
          end
      | _, _ => fail EType
      end
  | IUpdAt r src nb bsel =>
      match reg s r, reg s src with
      | Some d, Some o =>
          match leaves_of h o with
          | None => fail EFuel
          | Some lo => match at_writes h d lo nb bsel with
                       | Some ws => fin (write_list false h ws)
                       | None => fail EKey
                       end
          end
      | _, _ => fail EType
      end
  | ISetItemSc r z nb bsel =>
      match reg s r with
      | Some d =>
          match leaves_of h d with
          | None => fail EFuel
          | Some ls => fin (write_list false h (map (fun pv => (subview (snd pv) nb bsel, WUn (PConst z))) ls))
          end
      | None => fail EType
      end
  | IFill r p z =>
      match reg s r with
      | Some d =>
          match resolve h d p with
          | None => fail EKey
          | Some x => match leaves_of h x with
                      | None => fail EFuel
                      | Some ls => fin (write_list false h (map (fun pv => (snd pv, WUn (PConst z))) ls))
                      end
          end
      | None => fail EType
      end
  | IConstU r z =>
      match reg s r with
      | Some d => match leaves_of h d with
                  | None => fail EFuel
                  | Some ls => fin (write_list false h (map (fun pv => (snd pv, WUn (PConst z))) ls))
                  end
      | None => fail EType
      end
  | IUnaryU r f =>
      match reg s r with
      | Some d => match leaves_of h d with
                  | None => fail EFuel
                  | Some ls => fin (write_list true h (map (fun pv => (snd pv, WUn f)) ls))
                  end
      | None => fail EType
      end
  | IBinaryU r f src =>
      match reg s r, reg s src with
      | Some d, Some o =>
          match leaves_of h d, leaves_of h o with
          | Some ls, Some lo =>
              match pair_all ls lo with
              | Some prs => fin (write_list true h (map (fun vo => (fst vo, WBin f (snd vo))) prs))
              | None => fail EKey
              end
          | _, _ => fail EFuel
          end
      | _, _ => fail EType
      end
  | IDel r p =>
      match reg s r with
      | Some d =>
          match resolve h d (removelast p) with
          | Some (RNode n) =>
              match get_node h n with
              | Some nd =>
                  (* @lock_blocked on the receiver and on the node that holds the key *)
                  let root_locked := match d with RNode n0 => match get_node h n0 with Some x => nlock x | None => false end | _ => false end in
                  if root_locked || nlock nd then fail ELock
                  else if ents_has (nents nd) (last p "") then
                         (with_h s (set_node h n (mkNode (ents_del (nents nd) (last p "")) (nlock nd))), Done)
                       else fail EKey
              | None => fail EType
              end
          | _ => fail EKey
          end
      | None => fail EType
      end
  | ILock r b =>
      match reg s r with
      | Some d =>
          match nodes_below (fuel_of h) h d with
          | None => fail EFuel
          | Some ns =>
              (with_h s (fold_left (fun h0 n => match get_node h0 n with
                                               | Some nd => set_node h0 n (mkNode (nents nd) b) | None => h0 end) ns h), Done)
          end
      | None => fail EType
      end
  | IViewB r nb bsel pl =>
      match reg s r with
      | Some d => match map_tree (fuel_of h) false pl false (lf_sub nb bsel) h d [] with
                  | Some (h1, x) => (push s h1 x, Done) | None => fail EFuel end
      | None => fail EType
      end
  | IShallow r =>
      match reg s r with
      | Some d => match map_tree (fuel_of h) false false false lf_same h d [] with
                  | Some (h1, x) => (push s h1 x, Done) | None => fail EFuel end
      | None => fail EType
      end
  | IClone r =>
      match reg s r with
      | Some d => match map_tree (fuel_of h) false false false lf_copy h d [] with
                  | Some (h1, x) => (push s h1 x, Done) | None => fail EFuel end
      | None => fail EType
      end
  | IGather r nb bsel =>
      match reg s r with
      | Some d => match map_tree (fuel_of h) false false false (lf_gather nb bsel) h d [] with
                  | Some (h1, x) => (push s h1 x, Done) | None => fail EFuel end
      | None => fail EType
      end
  | IUnary r f pl fe =>
      match reg s r with
      | Some d => match map_tree (fuel_of h) (pl && root_locked h d) false fe (lf_un f) h d [] with
                  | Some (h1, x) => (push s h1 x, Done) | None => fail EFuel end
      | None => fail EType
      end
  | IContig r =>
      match reg s r with
      | Some d => match map_tree (fuel_of h) false false false lf_contig h d [] with
                  | Some (h1, x) => (push s h1 x, Done) | None => fail EFuel end
      | None => fail EType
      end
  | IBinary r f src =>
      match reg s r, reg s src with
      | Some d, Some o =>
          match leaves_of h d, leaves_of h o with
          | Some ls, Some lo =>
              match pair_all ls lo with
              | None => fail EKey
              | Some _ =>
                  (* same structure as the receiver (empty nested nodes dropped); fresh leaves *)
                  match map_tree (fuel_of h) (root_locked h d) false true (lf_bin f lo) h d [] with
                  | Some (h1, x) => (push s h1 x, Done)
                  | None => fail EFuel
                  end
              end
          | _, _ => fail EFuel
          end
      | _, _ => fail EType
      end
  | ISelect r ks =>
      match reg s r with
      | Some (RNode n) =>
          match get_node h n with
          | Some nd =>
              if forallb (fun k => ents_has (nents nd) k) ks then
                (* source[key] = val in the order of the requested keys; the same leaf / node objects *)
                let es := fold_left (fun acc k => match ents_get (nents nd) k with Some x => ents_set acc k x | None => acc end) ks [] in
                let '(h1, m) := alloc_node h (mkNode es false) in (push s h1 (RNode m), Done)
              else fail EKey
          | None => fail EType
          end
      | _ => fail EType
      end
  | IExclude r ks =>
      match reg s r with
      | Some (RNode n) =>
          match get_node h n with
          | Some nd =>
              let es := filter (fun kr => negb (memb_s (fst kr) ks)) (nents nd) in
              let '(h1, m) := alloc_node h (mkNode es false) in (push s h1 (RNode m), Done)
          | None => fail EType
          end
      | _ => fail EType
      end
  | IFlatten r sep =>
      match reg s r with
      | Some d =>
          match leaves_of h d with
          | Some ls =>
              let es := map (fun pv => (join sep (fst pv), RLeaf (snd pv))) ls in
              let '(h1, m) := alloc_node h (mkNode es false) in (push s h1 (RNode m), Done)
          | None => fail EFuel
          end
      | None => fail EType
      end
  end.

Fixpoint run (s : st) (prog : list instr) : st :=
  match prog with
  | [] => s
  | i :: t => run (fst (step s i)) t
  end.

Definition empty_st : st := mkSt (mkHeap [] []) [].
