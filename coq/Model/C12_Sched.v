(* Model of the thread-pool forms of apply and of the multithreaded writers:
     base.py::_multithread_apply_nest    (flat phase, then rebuild; tasks complete in any order)
     _td.py::_multithread_apply_flat     (futures appended to the flat list `futures` and to the nested `local_futures`;
                                          nested call forwards default= (fix S15) but, like _apply_nest, not call_on_nested=)
     _td.py::_multithread_rebuild        (zip(self.keys(), local_futures); nested rebuild gets out[key] (fix S16);
                                          filter_empty=None rule of _apply_nest (fix C12-b))
     _td.py::_apply_nest                 (the single-threaded form)
     _td.py::_memmap_ / _populate_memmap (writer tasks: dest._tensordict[key] = memmap_tensor)
     base.py::consolidate (assign tasks: storage[start:stop].copy_(v), offsets = cumsum of the padded sizes)
   Definitions only. *)
From Coq Require Import ZArith List String Bool.
Import ListNotations.
Open Scope string_scope.

(* a tensordict as an insertion-ordered tree; a leaf is a tensor OBJECT: its identity (a storage / object id; 0 is used for
   tensors freshly returned by the user function) and its symbolic content *)
Inductive tree := Leaf (i : nat) (v : Z) | Node (f : forest)
with forest := FNil | FCons (k : string) (t : tree) (f : forest).

Fixpoint fget (f : forest) (k : string) : option tree :=
  match f with
  | FNil => None
  | FCons k' t r => if String.eqb k k' then Some t else fget r k
  end.

(* dict assignment: an existing key keeps its position, a new key is appended *)
Fixpoint fset (f : forest) (k : string) (t : tree) : forest :=
  match f with
  | FNil => FCons k t FNil
  | FCons k' t' r => if String.eqb k k' then FCons k' t r else FCons k' t' (fset r k t)
  end.

(* in-place writes (_set_str(key, value, inplace=BEST_ATTEMPT_INPLACE)): an existing tensor is written with copy_ — it keeps its
   identity and takes the new content; an existing nested tensordict is updated entry by entry (dest.update(value, inplace=True));
   a key that does not exist yet is set as a new entry *)
Fixpoint set_with (m : tree -> tree) (f : forest) (k : string) (t : tree) : forest :=
  match f with
  | FNil => FCons k t FNil
  | FCons k' t' r => if String.eqb k k' then FCons k' (m t') r else FCons k' t' (set_with m r k t)
  end.
Fixpoint merge_t (new old : tree) {struct new} : tree :=
  match new, old with
  | Leaf _ v, Leaf i _ => Leaf i v
  | Node g, Node f => Node (merge_f g f)
  | _, _ => new
  end
with merge_f (g f : forest) {struct g} : forest :=
  match g with
  | FNil => f
  | FCons k t r => merge_f r (set_with (merge_t t) f k t)
  end.
Definition fset_ip (f : forest) (k : string) (t : tree) : forest := set_with (merge_t t) f k t.

Definition is_node (t : tree) : bool := match t with Node _ => true | Leaf _ _ => false end.
Definition fempty (f : forest) : bool := match f with FNil => true | _ => false end.

(* self.empty(recurse=True): the structure without the leaves *)
Fixpoint skeleton (f : forest) : forest :=
  match f with
  | FNil => FNil
  | FCons k t r =>
      match t with
      | Leaf _ _ => skeleton r
      | Node g => FCons k (Node (skeleton g)) (skeleton r)
      end
  end.

(* what the user function sees of the other operands: the entry found, or the default object *)
Inductive oval := OV (t : tree) | ODef.
(* fn(key-or-path?, item, *others) -> tensor / tensordict / None *)
Definition userfn := option (list string) -> tree -> list oval -> option tree.

Inductive dflt := NoDefault | Default.
Inductive aerr := AKey | AOther | ANeverDone.
Inductive ares (A : Type) := AOk (a : A) | ARaised (e : aerr).
Arguments AOk {A} a.
Arguments ARaised {A} e.
Definition abind {A B} (r : ares A) (f : A -> ares B) : ares B :=
  match r with AOk a => f a | ARaised e => ARaised e end.

(* [_other._get_str(key, default=default) for _other in others] *)
Fixpoint others_leaf (d : dflt) (others : list forest) (k : string) : ares (list oval) :=
  match others with
  | [] => AOk []
  | o :: r =>
      match fget o k with
      | Some t => abind (others_leaf d r k) (fun l => AOk (OV t :: l))
      | None =>
          match d with
          | NoDefault => ARaised AKey
          | Default => abind (others_leaf d r k) (fun l => AOk (ODef :: l))
          end
      end
  end.

(* the operands handed to the nested level:
   default given:  _other._get_str(key, default=None), a missing one replaced by self.empty(recurse=True) (of THIS level's self)
   no default:     _other._get_str(key, default=NO_DEFAULT)  (KeyError when missing) *)
Fixpoint others_node (d : dflt) (self : forest) (others : list forest) (k : string) : ares (list forest) :=
  match others with
  | [] => AOk []
  | o :: r =>
      match fget o k with
      | Some (Node g) => abind (others_node d self r k) (fun l => AOk (g :: l))
      | Some (Leaf _ _) => ARaised AOther
      | None =>
          match d with
          | NoDefault => ARaised AKey
          | Default => abind (others_node d self r k) (fun l => AOk (skeleton self :: l))
          end
      end
  end.

Record opts := { o_named : bool; o_nested_keys : bool; o_inplace : bool; o_fe : option bool }.

(* named: fn(key, ...) or fn(prefix + (key,), ...) when nested_keys *)
Definition keyarg (o : opts) (prefix : list string) (k : string) : option (list string) :=
  if o_named o then Some (if o_nested_keys o then (prefix ++ [k])%list else [k]) else None.

(* ---------------------------------------------------------------- the single-threaded form: _apply_nest *)
Section Apply.
Variable fn : userfn.
Variable o : opts.

(* result = None until the first non-None item (make_result), unless inplace / out *)
(* result._set_str(key, item_trsf, inplace=BEST_ATTEMPT_INPLACE if inplace else False, ...) *)
Definition set_entry (f : forest) (k : string) (v : tree) : forest := if o_inplace o then fset_ip f k v else fset f k v.
Definition set_result (res : option forest) (k : string) (v : tree) : option forest :=
  Some (set_entry (match res with Some r => r | None => FNil end) k v).

Definition out_child (out : option forest) (k : string) : option forest :=
  match out with
  | Some g => match fget g k with Some (Node h) => Some h | _ => None end
  | None => None
  end.

Definition finish_apply (self : forest) (res : option forest) (any_set : bool) : option forest :=
  match o_fe o with
  | Some true => if any_set then Some (match res with Some r => r | None => FNil end) else None
  | None => if negb any_set && negb (fempty self) then None else Some (match res with Some r => r | None => FNil end)
  | Some false => Some (match res with Some r => r | None => FNil end)
  end.

Fixpoint apply_items (d : dflt) (con : bool) (prefix : list string) (self : forest) (others : list forest)
         (out : option forest) (items : forest) (res : option forest) (any_set : bool) : ares (option forest * bool) :=
  match items with
  | FNil => AOk (res, any_set)
  | FCons k item rest =>
      let trsf :=
        match item with
        | Node g =>
            if con then abind (others_leaf d others k) (fun ov => AOk (fn (keyarg o prefix k) item ov))
            else abind (others_node d self others k) (fun others' =>
                 (* item._apply_nest(...): call_on_nested is not forwarded; default and out[key] are *)
                 let out' := out_child out k in
                 abind (apply_items d false (prefix ++ [k])%list g others' out' g (if o_inplace o then Some g else out') false)
                       (fun ra => AOk (option_map Node (finish_apply g (fst ra) (snd ra)))))
        | Leaf _ _ => abind (others_leaf d others k) (fun ov => AOk (fn (keyarg o prefix k) item ov))
        end in
      abind trsf (fun t =>
      match t with
      | Some v => apply_items d con prefix self others out rest (set_result res k v) true
      | None => apply_items d con prefix self others out rest res any_set
      end)
  end.

Definition apply_level (d : dflt) (con : bool) (prefix : list string) (self : forest) (others : list forest)
           (out : option forest) : ares (option forest) :=
  abind (apply_items d con prefix self others out self (if o_inplace o then Some self else out) false)
        (fun ra => AOk (finish_apply self (fst ra) (snd ra))).
End Apply.

(* ---------------------------------------------------------------- the multithreaded form *)
(* local_futures: positional, nested like the tensordict; ids index the flat list `futures` *)
Inductive lf := LFut (id : nat) | LList (l : list lf).
Record task := { tk_key : option (list string); tk_item : tree; tk_others : list oval }.

Section Flat.
Variable o : opts.
(* returns the tasks submitted (in submission order) and the nested local_futures; ids start at [base] *)
Fixpoint flat_items (d : dflt) (con : bool) (prefix : list string) (self : forest) (others : list forest)
         (items : forest) (base : nat) : ares (list task * list lf) :=
  match items with
  | FNil => AOk ([], [])
  | FCons k item rest =>
      let here :=
        match item with
        | Node g =>
            if con then abind (others_leaf d others k) (fun ov =>
                        AOk ([{| tk_key := keyarg o prefix k; tk_item := item; tk_others := ov |}], LFut base))
            else abind (others_node d self others k) (fun others' =>
                 (* default= is forwarded (fix S15); call_on_nested= is not (neither does _apply_nest) *)
                 abind (flat_items d false (prefix ++ [k])%list g others' g base)
                       (fun tl => AOk (fst tl, LList (snd tl))))
        | Leaf _ _ => abind (others_leaf d others k) (fun ov =>
                    AOk ([{| tk_key := keyarg o prefix k; tk_item := item; tk_others := ov |}], LFut base))
        end in
      abind here (fun h =>
      abind (flat_items d con prefix self others rest (base + List.length (fst h))) (fun r =>
      AOk ((fst h ++ fst r)%list, snd h :: snd r)))
  end.
End Flat.

(* the pool: tasks complete in the order [pi] (a list of task ids); the log records (id, result) on completion *)
Definition exec (fn : userfn) (t : task) : option tree := fn (tk_key t) (tk_item t) (tk_others t).
Definition run_tasks (fn : userfn) (tasks : list task) (pi : list nat) : list (nat * option tree) :=
  flat_map (fun id => match nth_error tasks id with Some t => [(id, exec fn t)] | None => [] end) pi.
Fixpoint log_get (log : list (nat * option tree)) (id : nat) : option (option tree) :=
  match log with
  | [] => None
  | (i, r) :: rest => if Nat.eqb i id then Some r else log_get rest id
  end.

Inductive rb (A : Type) :=
| RbOk (a : A)
| RbStuck.          (* a future that never completes / positional mismatch (zip strict) *)
Arguments RbOk {A} a.
Arguments RbStuck {A}.
Definition rbbind {A B} (r : rb A) (f : A -> rb B) : rb B :=
  match r with RbOk a => f a | RbStuck => RbStuck end.

Section Rebuild.
Variable o : opts.
Variable log : list (nat * option tree).

(*  if filter_empty and not any_set: return
    elif filter_empty is None and not any_set and not self.is_empty(): return      (same rule as _apply_nest, fix C12-b)
    return result *)
Definition finish_rebuild (self st : forest) (any_set : bool) : option forest :=
  match o_fe o with
  | Some true => if any_set then Some st else None
  | None => if negb any_set && negb (fempty self) then None else Some st
  | Some false => Some st
  end.

Definition unopt (r : option forest) : forest := match r with Some f => f | None => FNil end.

(* the setter: `checked and isinstance(result, TensorDict) and (inplace is not True)` -> result._tensordict[key] = item (a rebinding,
   only when NOT in place); otherwise result._set_str(key, item, inplace=BEST_ATTEMPT_INPLACE if inplace else False): both are
   [set_entry] — in place the existing leaves are written into and keep their identity *)
(* result object of a level: self (inplace), out (the level's own out, i.e. out[key] below the root — fix S16), or a new one *)
Fixpoint rebuild_items (out : option forest) (items : forest) (lfs : list lf) (st : forest) (any_set : bool)
  : rb (forest * bool) :=
  match items, lfs with
  | FNil, [] => RbOk (st, any_set)
  | FCons k item rest, l :: lrest =>
      match l with
      | LFut id =>
          match log_get log id with
          | None => RbStuck
          | Some (Some v) => rebuild_items out rest lrest (set_entry o st k v) true
          | Some None => rebuild_items out rest lrest st any_set
          end
      | LList sub =>
          match item with
          | Leaf _ _ => RbStuck
          | Node g =>
              let out' := out_child out k in
              let init := if o_inplace o then g else unopt out' in
              rbbind (rebuild_items out' g sub init false) (fun r =>
              match finish_rebuild g (fst r) (snd r) with
              | Some st' => rebuild_items out rest lrest (set_entry o st k (Node st')) true
              | None => rebuild_items out rest lrest st any_set
              end)
          end
      end
  | _, _ => RbStuck
  end.
End Rebuild.

Inductive outcome :=
| ORet (r : option forest)     (* returned tensordict (None: filtered out) *)
| ORaise (e : aerr).

Definition mt_apply (fn : userfn) (o : opts) (d : dflt) (con : bool) (self : forest) (others : list forest)
           (out : option forest) (pi : list nat) : outcome :=
  match flat_items o d con [] self others self 0 with
  | ARaised e => ORaise e
  | AOk (tasks, lfs) =>
      let log := run_tasks fn tasks pi in
      let init := if o_inplace o then self else unopt out in
      match rebuild_items o log out self lfs init false with
      | RbOk r => ORet (finish_rebuild o self (fst r) (snd r))
      | RbStuck => ORaise ANeverDone
      end
  end.

Definition st_apply (fn : userfn) (o : opts) (d : dflt) (con : bool) (self : forest) (others : list forest)
           (out : option forest) : outcome :=
  match apply_level fn o d con [] self others out with
  | AOk r => ORet r
  | ARaised e => ORaise e
  end.

Fixpoint ntasks (con : bool) (f : forest) : nat :=
  match f with
  | FNil => 0
  | FCons _ t r =>
      match t with
      | Leaf _ _ => 1
      | Node g => if con then 1 else ntasks false g
      end + ntasks con r
  end.

(* ---------------------------------------------------------------- writers *)
(* memmap writers: every task does dest[path] = memmap(value); the main thread attaches nested nodes itself.
   The destination is modelled as an insertion-ordered map from paths to values. *)
Definition path := list string.
Definition path_eqb (a b : path) : bool := if list_eq_dec string_dec a b then true else false.

Fixpoint aset (d : list (path * Z)) (p : path) (v : Z) : list (path * Z) :=
  match d with
  | [] => [(p, v)]
  | (q, w) :: r => if path_eqb p q then (q, v) :: r else (q, w) :: aset r p v
  end.
Fixpoint aget (d : list (path * Z)) (p : path) : option Z :=
  match d with
  | [] => None
  | (q, w) :: r => if path_eqb p q then Some w else aget r p
  end.
Definition run_writes (ops : list (path * Z)) (d0 : list (path * Z)) : list (path * Z) :=
  fold_left (fun d pv => aset d (fst pv) (snd pv)) ops d0.

(* consolidate: offsets = cumsum([0] + sizes); task i copies its bytes to storage[offsets[i] : offsets[i+1]] *)
Fixpoint offsets_from (start : nat) (sizes : list nat) : list nat :=
  match sizes with [] => [] | s :: r => start :: offsets_from (start + s) r end.
Definition store_at {B} (storage : list B) (start : nat) (bytes : list B) : list B :=
  (firstn start storage ++ bytes ++ skipn (start + List.length bytes) storage)%list.
Definition run_assign {B} (writes : list (nat * list B)) (storage : list B) : list B :=
  fold_left (fun s w => store_at s (fst w) (snd w)) writes storage.

(* ---------------------------------------------------------------- writer tasks that may FAIL (repair S2) *)
(* a task writes its value, or raises exception e (existsok=False on an existing file, a full disk, ...) *)
Definition wtask := (path * (Z + nat))%type.
Inductive wout := WDone (d : list (path * Z)) | WRaised (e : nat).

(* single-threaded: _populate_memmap is called inline, entry by entry; the first failure propagates at once *)
Fixpoint run_writes_st (ops : list wtask) (d : list (path * Z)) : wout :=
  match ops with
  | [] => WDone d
  | (p, inl v) :: r => run_writes_st r (aset d p v)
  | (_, inr e) :: _ => WRaised e
  end.

Fixpoint first_failure (ops : list wtask) : option nat :=
  match ops with [] => None | (_, inr e) :: _ => Some e | (_, inl _) :: r => first_failure r end.
Definition oks (ops : list wtask) : list (path * Z) :=
  flat_map (fun t => match snd t with inl v => [(fst t, v)] | inr _ => [] end) ops.

(* thread pool: every task is submitted and runs (in the completion order [completed], a permutation of [submitted]; a failing
   task stores its exception in its future); then
       concurrent.futures.wait(futures); for future in futures: future.result()
   re-raises the failure of the first failing future IN SUBMISSION ORDER *)
Definition run_writes_mt (submitted completed : list wtask) (d : list (path * Z)) : wout :=
  match first_failure submitted with
  | Some e => WRaised e
  | None => WDone (run_writes (oks completed) d)
  end.
