(* Model of tensordict/utils.py::_slice_indices (the compile-only replacement of slice.indices). *)
From Coq Require Import ZArith List Bool Lia.
Import ListNotations.
Open Scope Z_scope.

(* transcription, statement by statement, of the Python function.  [step] None has been defaulted to 1 by the
   caller of this definition ([slice_indices_opt]); step = 0 raises ValueError -> None. *)
Definition slice_indices_core (start stop : option Z) (step len : Z) : Z * Z * Z :=
  let lower := if step >? 0 then 0 else -1 in
  let upper := if step >? 0 then len else len - 1 in
  let start' :=
    match start with
    | None => if step >? 0 then lower else upper
    | Some s => if s <? 0 then Z.max (s + len) lower else Z.min s upper
    end in
  let stop' :=
    match stop with
    | None => if step >? 0 then upper else lower
    | Some s => if s <? 0 then Z.max (s + len) lower else Z.min s upper
    end in
  (start', stop', step).

Definition slice_indices_opt (start stop step : option Z) (len : Z) : option (Z * Z * Z) :=
  let st := match step with None => 1 | Some s => s end in
  if st =? 0 then None else Some (slice_indices_core start stop st len).
