(* C14 — key plumbing of probabilistic modules.  DEFINITIONS ONLY.
   Transcribes tensordict/nn/probabilistic.py: ProbabilisticTensorDictModule.__init__ (log_prob_key / log_prob_keys
   defaults), the properties out_keys / log_prob_key / log_prob_keys, get_dist, forward (sampling branch, composite and
   plain; the branch without sampling), _update_td_lp; ProbabilisticTensorDictSequential: _requires_sample, forward,
   get_dist, log_prob (return_composite=False, default configuration).
   Values stay terms: a distribution is (module id, keyword names, the parameter terms); a sample is "component j of what
   method a of that distribution returns"; a log-probability is "log_prob of that distribution at these stored samples".
   What torch.distributions computes is out of scope.  Not modelled: num_samples, cache_dist, return_composite=True, the
   state left behind by a call that raises. *)
From Coq Require Import List String Bool Arith.
Import ListNotations.
From TD Require Import Model.C14_Flow Model.C14_Interact.
Open Scope list_scope.

Definition lp_suffix : string := "_log_prob".
(* composite.py:_add_suffix *)
Fixpoint add_suffix (k : key) : key :=
  match k with
  | [] => []
  | [s] => [String.append s lp_suffix]
  | s :: r => s :: add_suffix r
  end.
Fixpoint last_comp (k : key) : string :=
  match k with [] => EmptyString | [s] => s | _ :: r => last_comp r end.
Definition slp : key := ["sample_log_prob"%string].

Fixpoint keys_eqb (a b : list key) : bool :=
  match a, b with
  | [], [] => true
  | x :: a', y :: b' => key_eqb x y && keys_eqb a' b'
  | _, _ => false
  end.
Definition one (l : list key) : bool := Nat.eqb (List.length l) 1.

(* ------------------------------------------------------------------ the constructor *)
Record pargs := { a_id : nat; a_in : list key; a_dict : option (list string); a_out : option (list key);
                  a_comp : option (list key);       (* CompositeDistribution: the names its samples are written under *)
                  a_rlp : bool; a_lpk : option key; a_lpks : option (list key); a_default : itype }.

Record pmod := { pid : nat; p_kw : list string; p_in : list key; p_out : list key; p_comp : option (list key);
                 p_rlp : bool; p_lpk : option key; p_lpks : option (list key);
                 p_agg : bool;                      (* composite_lp_aggregate() when the module was built *)
                 p_default : itype }.

(* [agg] = composite_lp_aggregate() at construction; None = RuntimeError *)
Definition pm_init (agg : bool) (a : pargs) : option pmod :=
  let outs := match a_out a with
              | Some o => o
              | None => match a_comp a with Some names => names | None => [sink] end
              end in
  let lpks : option (option (list key)) :=
    match a_lpks a with
    | None => Some (match a_lpk a with
                    | Some k => if one outs then Some [k]
                                else if agg then None else Some (map add_suffix outs)
                    | None => if agg then (if one outs then Some [slp] else None)
                              else Some (map add_suffix outs)
                    end)
    | Some l => if agg then None else Some (Some l)
    end in
  let lpk : option (option key) :=
    match a_lpk a with
    | None => Some (if agg then Some slp else if one outs then Some (add_suffix (hd [] outs)) else None)
    | Some k => if Nat.ltb 1 (List.length outs) && negb agg then None else Some (Some k)
    end in
  match lpks, lpk with
  | Some l, Some k =>
      Some {| pid := a_id a;
              p_kw := match a_dict a with Some names => names | None => map last_comp (a_in a) end;
              p_in := a_in a; p_out := outs; p_comp := a_comp a; p_rlp := a_rlp a;
              p_lpk := k; p_lpks := l; p_agg := agg; p_default := a_default a |}
  | _, _ => None
  end.

(* ------------------------------------------------------------------ the properties; [now] = composite_lp_aggregate() at the
   time of the call; None = RuntimeError *)
Definition log_prob_key_of (now : bool) (m : pmod) : option key :=
  if Bool.eqb now (p_agg m) then
    if now then p_lpk m
    else match p_lpks m with Some [k] => Some k | _ => None end
  else None.

Definition log_prob_keys_of (now : bool) (m : pmod) : option (list key) :=
  if Bool.eqb now (p_agg m) then
    if now then option_map (fun k => [k]) (log_prob_key_of now m) else p_lpks m
  else None.

(* l[-n:] *)
Definition lastn (n : nat) (l : list key) : list key :=
  if Nat.eqb n 0 then l else skipn (List.length l - n) l.

Definition pm_out_keys (now : bool) (m : pmod) : option (list key) :=
  if p_rlp m then
    if now then
      match log_prob_key_of now m with
      | Some k => Some (if memk k (p_out m) then p_out m else p_out m ++ [k])
      | None => None
      end
    else
      match log_prob_keys_of now m with
      | Some lpks => Some (if keys_eqb (lastn (List.length lpks) (p_out m)) lpks then p_out m else p_out m ++ lpks)
      | None => None
      end
  else Some (p_out m).

(* ------------------------------------------------------------------ values *)
Record dist := { d_mod : nat; d_kw : list string; d_ps : list (option term) }.
Inductive sval := SUp (t : term) | SSmp (d : dist) (a : action) (j : nat).
Inductive pv := PV (t : term) | PS (d : dist) (a : action) (j : nat) | PL (d : dist) (j : option nat) (vs : list sval).
Definition ptd := list (key * pv).

Fixpoint pget (k : key) (t : ptd) : option pv :=
  match t with
  | [] => None
  | (k', v) :: r => if key_eqb k k' then Some v else pget k r
  end.
Fixpoint pset (k : key) (v : pv) (t : ptd) : ptd :=
  match t with
  | [] => [(k, v)]
  | (k', v') :: r => if key_eqb k k' then (k, v) :: r else (k', v') :: pset k v r
  end.
Definition wr (kvs : list (key * pv)) (d : ptd) : ptd := fold_left (fun d kv => pset (fst kv) (snd kv) d) kvs d.
Definition lift (t : td) : ptd := map (fun kv => (fst kv, PV (snd kv))) t.

Inductive pres := PDone (x : ptd) (o : option ptd) | PRaise | POutside.

(* get_dist: keyword <- tensordict.get(td_key, None).  None = outside the model (a parameter that is itself a sample) *)
Definition par (v : option pv) : option (option term) :=
  match v with None => Some None | Some (PV t) => Some (Some t) | Some _ => None end.
Fixpoint all_some {A} (l : list (option A)) : option (list A) :=
  match l with
  | [] => Some []
  | Some a :: r => option_map (cons a) (all_some r)
  | None :: _ => None
  end.
Definition get_dist (m : pmod) (x : ptd) : option dist :=
  option_map (fun ps => {| d_mod := pid m; d_kw := p_kw m; d_ps := ps |})
             (all_some (map (fun k => par (pget k x)) (p_in m))).

(* stored samples read back from the tensordict: Some None = KeyError, None = outside *)
Definition stored (k : key) (x : ptd) : option (option sval) :=
  match pget k x with None => Some None | Some (PV t) => Some (Some (SUp t)) | Some _ => None end.

(* CompositeDistribution.log_prob_composite without the sum: one entry per component *)
Definition per_leaf (d : dist) (names : list key) (vs : list sval) : list (key * pv) :=
  map (fun p => (add_suffix (fst p), PL d (Some (fst (snd p))) [snd (snd p)]))
      (combine names (combine (seq 0 (List.length names)) vs)).

(* _update_td_lp: rename <out_key>_log_prob to the chosen log-prob key, pair by pair; None = KeyError / ValueError *)
Fixpoint rename_lp (pairs : list (key * key)) (lp : list (key * pv)) : option (list (key * pv)) :=
  match pairs with
  | [] => Some lp
  | (ok, lk) :: r =>
      let e := add_suffix ok in
      if key_eqb lk e then rename_lp r lp
      else if existsb (fun kv => key_eqb (fst kv) e) lp
           then rename_lp r (map (fun kv => if key_eqb (fst kv) e then (lk, snd kv) else kv) lp)
           else None
  end.
Definition update_td_lp (now : bool) (m : pmod) (lp : list (key * pv)) : option (list (key * pv)) :=
  match log_prob_keys_of now m with
  | Some lpks => if Nat.eqb (List.length (p_out m)) (List.length lpks) then rename_lp (combine (p_out m) lpks) lp else None
  | None => None
  end.

(* what a composite module writes for its log-probabilities, given the stored / drawn samples.
   [f149 = false]: the library before the repair of D149 -- the entries were copied before being renamed. *)
Definition comp_lp (f149 now : bool) (m : pmod) (d : dist) (names : list key) (vs : list sval) : option (list (key * pv)) :=
  let pl := per_leaf d names vs in
  if now then
    match log_prob_key_of now m with
    | Some lk => Some (pl ++ [(lk, PL d None vs)])            (* D147: the per-leaf entries are written as well *)
    | None => None
    end
  else
    match update_td_lp now m pl with
    | Some pl' => Some (if f149 then pl' else pl)
    | None => None
    end.

Definition is_raise (a : action) : bool := match a with ARaiseNotImpl | ARaiseRuntime => true | _ => false end.

(* forward(tensordict, tensordict_out, _requires_sample).  [f148 = false]: before the repair of D148. *)
Definition pm_forward (f148 f149 now : bool) (ctx : option itype) (cap : dcap) (m : pmod) (x : ptd) (o : option ptd)
                      (req : bool) : pres :=
  let fin := fun kvs => match o with Some ot => PDone x (Some (wr kvs ot)) | None => PDone (wr kvs x) None end in
  match get_dist m x with
  | None => POutside
  | Some d =>
      if req then
        let a := dist_sample (resolve ctx (p_default m)) cap in
        if is_raise a then PRaise
        else match p_comp m with
             | Some names =>
                 let vs := map (SSmp d a) (seq 0 (List.length names)) in
                 let smp := combine names (map (PS d a) (seq 0 (List.length names))) in
                 if p_rlp m then
                   if Bool.eqb now (p_agg m) then
                     match comp_lp f149 now m d names vs with
                     | Some lp => fin (smp ++ lp)
                     | None => PRaise
                     end
                   else PRaise
                 else fin smp
             | None =>
                 match p_out m with
                 | [k] =>
                     if p_rlp m then
                       match log_prob_key_of now m with
                       | Some lk => fin [(k, PS d a 0); (lk, PL d None [SSmp d a 0])]
                       | None => PRaise
                       end
                     else fin [(k, PS d a 0)]
                 | _ => PRaise                       (* zip_strict *)
                 end
             end
      else if p_rlp m then
        match p_comp m with
        | Some names =>
            if f148 then
              (* tensordict.select( *dist_sample_keys ) then the components read their names from the selection *)
              match all_some (map (fun k => stored k x) (p_out m)) with
              | None => POutside
              | Some sel =>
                  match all_some sel with
                  | None => PRaise                 (* a sample key is missing *)
                  | Some _ =>
                      match all_some (map (fun k => if memk k (p_out m) then stored k x else Some None) names) with
                      | None => POutside
                      | Some vs0 =>
                          match all_some vs0 with
                          | None => PRaise
                          | Some vs => match comp_lp true now m d names vs with
                                       | Some lp => fin lp
                                       | None => PRaise
                                       end
                          end
                      end
                  end
              end
            else PRaise                             (* dist.log_prob( *tensors ) on a composite: TypeError *)
        | None =>
            match pm_out_keys now m, log_prob_keys_of now m with
            | Some oks, Some lpks =>
                match all_some (map (fun k => stored k x) (filter (fun k => negb (memk k lpks)) oks)) with
                | None => POutside
                | Some r =>
                    match all_some r with
                    | Some [v] => match log_prob_key_of now m with
                                  | Some lk => fin [(lk, PL d None [v])]
                                  | None => PRaise
                                  end
                    | _ => PRaise                    (* KeyError / log_prob takes one value *)
                    end
                end
            | _, _ => PRaise
            end
        end
      else fin []
  end.

(* ------------------------------------------------------------------ ProbabilisticTensorDictSequential (default configuration) *)
Record pseq := { q_det : list node; q_last : pmod }.

Definition q_requires_sample (q : pseq) : bool :=
  requires_sample (Some (p_out (q_last q))) (all_out_keys (q_det q)).

(* in_keys / out_keys: _compute_in_and_out_keys over the deterministic modules and the final module *)
Definition q_io (now : bool) (q : pseq) : option (list key * list key) :=
  match pm_out_keys now (q_last q) with
  | Some lo =>
      let r := fold_left (fun acc m => step_io acc (io m)) (q_det q) ([], []) in
      let r' := step_io r (p_in (q_last q), lo) in
      Some (fst r', dedup_last (snd r'))
  | None => None
  end.

Definition det_run (q : pseq) (x : td) : option (option td) :=       (* Some None = raised; None = outside *)
  match fwd (Seq (default_cfg false) (q_det q)) x None with
  | Done x' None RIn => Some (Some x')
  | Done _ _ _ => None
  | Raised _ _ => Some None
  end.

(* forward: get_dist_params (the deterministic part, in place) then the final module with _requires_sample *)
Definition q_forward (f148 f149 now : bool) (ctx : option itype) (cap : dcap) (q : pseq) (x : td) : pres :=
  match det_run q x with
  | Some (Some x') => pm_forward f148 f149 now ctx cap (q_last q) (lift x') None (q_requires_sample q)
  | Some None => PRaise
  | None => POutside
  end.

(* get_dist: the distribution of the final module, built from what the deterministic part computed *)
Definition q_get_dist (q : pseq) (x : td) : option (option dist) :=
  match det_run q x with
  | Some (Some x') => option_map Some (get_dist (q_last q) (lift x'))
  | Some None => Some None
  | None => None
  end.

(* log_prob of a plain (non-composite) final module: the distribution at the entry stored under its first out key,
   read AFTER the deterministic part has run on the tensordict *)
Definition q_log_prob (now : bool) (q : pseq) (x : td) : option (option pv) :=
  match det_run q x with
  | Some (Some x') =>
      match get_dist (q_last q) (lift x'), pm_out_keys now (q_last q) with
      | Some d, Some (k :: _) =>
          match stored k (lift x') with
          | Some (Some v) => Some (Some (PL d None [v]))
          | Some None => Some None
          | None => None
          end
      | None, _ => None
      | _, _ => Some None
      end
  | Some None => Some None
  | None => None
  end.
