(* C01 — all modelled public calls in one op type: the calls of Model/C01_Ops.v (XBase) and the index writes of
   Model/C01_Index.v (XIdx) issued on the root or through a handle.  Definitions only. *)
From Coq Require Import List String Bool Arith.
Import ListNotations.
From TD Require Import Model.C01_Tree Model.C01_Ops Model.C01_Scope Model.C01_Index.
Open Scope string_scope.
Open Scope list_scope.

Inductive xop :=
| XBase (o : op)
| XIdx (path : list string) (o : iop).

Definition xstep (t : tree) (o : xop) : tree * outcome :=
  match o with
  | XBase o => step t o
  | XIdx p io => istep t p io
  end.

Definition xrun (t : tree) (ops : list xop) : tree := fold_left (fun t o => fst (xstep t o)) ops t.

(* the property's stated exclusion: only batch-size changes through a nested handle are concerned; index writes never
   change a batch size *)
Definition x_in_scopeb (t : tree) (o : xop) : bool :=
  match o with XBase o => in_scopeb t o | XIdx _ _ => true end.

(* proof hypotheses (Model/C01_Scope.clean0) extended: the value handed to an index write is coherent by itself *)
Definition x_cleanb (t : tree) (o : xop) : bool :=
  match o with XBase o => cleanb t o | XIdx _ io => value_okb (iop_value io) end.
