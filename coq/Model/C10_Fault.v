(* C10 — writer tasks that FAIL, and the futures the public entry points look at.  Definitions only.

   base.py memmap_ / memmap / memmap_like (num_threads > 1):
       futures = []
       result = self._memmap_(..., executor=executor, futures=futures, ...)      # the walk submits tasks
       if not return_early:
           concurrent.futures.wait(futures)
           for future in futures: future.result()          # re-raises the exception of the first listed task that failed
           return result
       else:
           return TensorDictFuture(futures, result)        # .result(): wait(self.futures); for f in self.futures: f.result()
                                                           # (before the D110 repair: the wait and nothing else)
   The walk hands ONE list down (`futures=futures`) through TensorDict / lazy stack / NonTensorStack nodes, so what is
   appended anywhere below is in the caller's list.  The tensorclass `_memmap_` (tensorclass.py) is the one place where the
   list is re-plumbed:
       futures.append(executor.submit(save_metadata))
       new_futures = []
       td = self._tensordict._memmap_(..., futures=new_futures, ...)
       if new_futures: futures += new_futures              # <- [hands_over]: the futures of the fields reach the caller
       ...
       if not inplace:
           if new_futures: concurrent.futures.wait(new_futures)   # waits, does not look at the outcome
   [submitted h] is the walk with, for every submitted task, whether its future ends up in the list of the entry point;
   h : inplace -> bool is the `futures += new_futures` step ([repo_hands_over] = always, what /repo does).

   A task ends [TDone] or [TFailed e].  Obstacles met on the disk make tasks fail that would succeed otherwise
   ([inject]): a `<key>.memmap` that exists while existsok=False (RuntimeError from MemoryMappedTensor.from_tensor), a
   `meta.json` that cannot be opened for writing (IsADirectoryError; a read-only directory gives PermissionError).  A
   failed task leaves the state alone: what a raising call leaves behind is not part of the property and not compared. *)
From Coq Require Import ZArith List String Bool.
Import ListNotations.
From TD Require Import Model.C10_Meta Model.C10_Sched.
Open Scope string_scope.
Open Scope list_scope.

(* ---- outcome of a task ---- *)
Inductive outcome := TDone | TFailed (e : err).
Definition task_outcome (t : task) : outcome := match task_error t with None => TDone | Some e => TFailed e end.

(* ---- obstacles ---- *)
Definition target (t : task) : floc := match t with TPopulate p k _ => (p, FLeaf k) | TWrite p _ _ => (p, FMeta) end.
Definition failing (p : path) (e : err) : task := TWrite p (Raised e) [].
Definition faults := list (floc * err).
Definition inject (fl : faults) (t : task) : task :=
  match mget floc_eqb (target t) fl with Some e => failing (fst (target t)) e | None => t end.

(* ---- the walk, with the fate of every future ---- *)
Fixpoint submitted (h : bool -> bool) (o : opts) (inplace : bool) (t : td) (p : path) {struct t} : list (task * bool) :=
  match t with
  | Leaf _ => []
  | Node bs ents =>
      (fix go (es : list (string * td)) : list (task * bool) :=
         match es with
         | [] => []
         | (k, Leaf l) :: r => (TPopulate p k (o, l), true) :: go r
         | (k, c) :: r => submitted h o inplace c (p ++ [k]) ++ go r
         end) ents
      ++ [(TWrite p (Ok [(FMeta, CJson (JObj (node_meta bs ents)))]) [], true)]
  | Lazy sd ms =>
      (TWrite p (Ok [(FMeta, CJson (JObj (lazy_meta sd (List.length ms))))]) [], true)
      :: (fix go (ms : list td) (i : nat) : list (task * bool) :=
            match ms with [] => [] | m :: r => submitted h o inplace m (p ++ [string_of_nat i]) ++ go r (S i) end) ms 0
  | TCls c nt inner =>
      (TWrite p (tc_files c nt []) (tc_removes nt), true)
      :: map (fun tb => (fst tb, snd tb && h inplace)) (submitted h o inplace inner (p ++ ["_tensordict"]))
  | NData bs pl => [(TWrite p (ndata_files bs pl []) (if is_json_serializable pl then [FOther] else []), true)]
  | NStack _ => [(TWrite p (nstack_files (stack_ndim t) (tolist t) []) [], true)]
  end.

Definition repo_hands_over (inplace : bool) : bool := true.         (* `if new_futures: futures += new_futures` *)
Definition spawned (sub : list (task * bool)) : list task := map fst sub.
Definition collected (sub : list (task * bool)) : list task := map fst (filter snd sub).

(* ---- what the call returns ----
   fixed_D110 = false: TensorDictFuture.result() only waits (finding D110, before fixes/C10/D110.diff); true: it inspects
   its futures like the entry points do (`for future in self.futures: future.result()`).  ONE definition to flip when
   /repo changes side; /repo carries the repair. *)
Definition fixed_D110 : bool := true.

(* sub: the submitted tasks (obstacles applied) with their collected flag; ts': the order they completed in *)
Definition call_result (inspects : bool) (sub : list (task * bool)) (s : state) (ts' : list task) : res state :=
  if inspects then match first_error (collected sub) with Some e => Raised e | None => Ok (run_tasks ts' s) end
  else Ok (run_tasks ts' s).

Definition inject_sub (fl : faults) (sub : list (task * bool)) : list (task * bool) :=
  map (fun tb => (inject fl (fst tb), snd tb)) sub.

Definition pool_call_f_gen (h : bool -> bool) (fixed_early : bool) (fl : faults) (early : bool) (o : opts) (inplace : bool) (t : td)
           (ts' : list task) : res state :=
  if has_reserved t then Raised EValueError
  else call_result (if early then fixed_early else true) (inject_sub fl (submitted h o inplace t [])) (skeleton inplace t [] init_state) ts'.
Definition pool_call_f := pool_call_f_gen repo_hands_over fixed_D110.

(* executor=None: the tasks run inline, in the order the walk meets them, and the first failure is the call's *)
Definition run_sequential_f (fl : faults) (o : opts) (inplace : bool) (t : td) : res state :=
  if has_reserved t then Raised EValueError
  else run_tasks_strict (map (inject fl) (tasks_of o t [])) (skeleton inplace t [] init_state).
