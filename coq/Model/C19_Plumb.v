(* Input / output plumbing of the monkey-patched torch.vmap (C19, direction (b)); tensordict/nn/functional_modules.py:
     _process_batched_inputs  (147-222)  -> [process]    which flat argument gets which in_dim, every refusal in its order
     _create_batched_inputs   (224-252)  -> [create]     what the function receives for each flat argument
     _unwrap_batched          (254-309)  -> [unwrap]     which output gets which out_dim, what comes back
   with torch's helpers they call: tree_flatten (tensordicts are leaves), _broadcast_to_and_flatten ([bcast]: a prefix tree
   is broadcast over the argument tree), _validate_and_get_batch_size ([validate]), _check_out_dims_is_int_or_int_pytree,
   _maybe_remove_batch_dim for tensors.  Containers: tuples and lists (dicts are not generated).  *)
From Coq Require Import ZArith List Bool Lia.
Import ListNotations.
From TD Require Import Model.C19_Vmap Model.C19_Content.
Open Scope nat_scope.

Inductive ptree (A : Type) := PLeaf (a : A) | PTup (l : list (ptree A)) | PLst (l : list (ptree A)).
Arguments PLeaf {A} a.
Arguments PTup {A} l.
Arguments PLst {A} l.

(* argument leaves *)
Inductive aleaf :=
| ATd (bsz : list nat)          (* a tensordict (any tensor collection): a pytree LEAF here; batch size *)
| ATen (sh : list nat)          (* a tensor; shape *)
| AObj.                         (* any other python object *)
(* in_dims / out_dims leaves *)
Inductive dleaf := LInt (z : Z) | LNone | LBad.   (* LBad: neither int nor None (a str, a float ...) *)

Fixpoint flatten {A} (t : ptree A) : list A :=
  match t with
  | PLeaf a => [a]
  | PTup l => (fix fl (l : list (ptree A)) := match l with [] => [] | x :: r => flatten x ++ fl r end) l
  | PLst l => (fix fl (l : list (ptree A)) := match l with [] => [] | x :: r => flatten x ++ fl r end) l
  end.

(* torch.utils._pytree._broadcast_to_and_flatten(prefix, treespec of t): a leaf of the prefix is repeated over the leaves
   below it; node types and child counts must agree, otherwise None *)
Fixpoint bcast {A B} (d : ptree A) (t : ptree B) {struct d} : option (list A) :=
  match d with
  | PLeaf a => Some (repeat a (length (flatten t)))
  | PTup ds =>
      match t with
      | PTup ts =>
          (fix go (ds : list (ptree A)) (ts : list (ptree B)) : option (list A) :=
             match ds, ts with
             | [], [] => Some []
             | d' :: ds', t' :: ts' =>
                 match bcast d' t', go ds' ts' with Some x, Some y => Some (x ++ y) | _, _ => None end
             | _, _ => None
             end) ds ts
      | _ => None
      end
  | PLst ds =>
      match t with
      | PLst ts =>
          (fix go (ds : list (ptree A)) (ts : list (ptree B)) : option (list A) :=
             match ds, ts with
             | [], [] => Some []
             | d' :: ds', t' :: ts' =>
                 match bcast d' t', go ds' ts' with Some x, Some y => Some (x ++ y) | _, _ => None end
             | _, _ => None
             end) ds ts
      | _ => None
      end
  end.

(* ------------------------------------------------------------------ inputs *)
Inductive reject :=
| RTop            (* in_dims is neither an int nor a tuple *)
| RNoInputs       (* no positional argument *)
| RStructure      (* in_dims is not a prefix of the argument structure *)
| RBadDim         (* an in_dim that is neither int nor None *)
| RNonTensor      (* an int in_dim for an argument that is neither a tensor nor a tensordict *)
| RRange          (* in_dim outside [-arg.dim(), arg.dim()) *)
| RNoBatched      (* every in_dim is None               (raised by _validate_and_get_batch_size) *)
| RInconsistent.  (* sizes along the mapped dims differ  (raised by _validate_and_get_batch_size) *)

Definition arg_shape (a : aleaf) : option (list nat) :=
  match a with ATd b => Some b | ATen s => Some s | AObj => None end.   (* arg.dim() / arg.size(d): batch dims for a tensordict *)

(* one iteration of the checking loop; Some k: the normalised in_dim *)
Definition check1 (a : aleaf) (d : dleaf) : reject + option nat :=
  match d with
  | LBad => inl RBadDim
  | LNone => inr None
  | LInt z =>
      match arg_shape a with
      | None => inl RNonTensor
      | Some sh => match process_in_dim (length sh) z with None => inl RRange | Some k => inr (Some k) end
      end
  end.

Fixpoint check_all (args : list aleaf) (dims : list dleaf) : reject + list (option nat) :=
  match args, dims with
  | a :: args', d :: dims' =>
      match check1 a d with
      | inl r => inl r
      | inr k => match check_all args' dims' with inl r => inl r | inr ks => inr (k :: ks) end
      end
  | _, _ => inr []
  end.

(* [arg.size(in_dim) for in_dim, arg in zip(..) if in_dim is not None] *)
Fixpoint sizes (args : list aleaf) (dims : list (option nat)) : list nat :=
  match args, dims with
  | a :: args', Some k :: dims' =>
      match arg_shape a with Some sh => nth k sh 0 :: sizes args' dims' | None => sizes args' dims' end
  | _ :: args', None :: dims' => sizes args' dims'
  | _, _ => []
  end.

Definition validate (szs : list nat) : reject + nat :=
  match szs with
  | [] => inl RNoBatched
  | b :: r => if forallb (Nat.eqb b) r then inr b else inl RInconsistent
  end.

Inductive pres := PRej (r : reject) | POk (B : nat) (dims : list (option nat)) (flat : list aleaf).

(* in_dims: the user's in_dims; args: the positional arguments (always a tuple) *)
Definition process (in_dims : ptree dleaf) (args : list (ptree aleaf)) : pres :=
  match in_dims with
  | PLeaf LNone | PLeaf LBad | PLst _ => PRej RTop
  | _ =>
      match args with
      | [] => PRej RNoInputs
      | _ =>
          match bcast in_dims (PTup args) with
          | None => PRej RStructure
          | Some fdims =>
              let flat := flatten (PTup args) in
              match check_all flat fdims with
              | inl r => PRej r
              | inr ks => match validate (sizes flat ks) with inl r => PRej r | inr B => POk B ks flat end
              end
          end
      end
  end.

(* what the vmapped function receives for a flat argument *)
Inductive binp :=
| BSame (a : aleaf)            (* the very same object *)
| BCopy (bsz : list nat)       (* a tensordict with in_dim None: arg.clone(False), a fresh node over the same leaves *)
| BTd (bsz : list nat)         (* arg._add_batch_dim(in_dim, level): the batched view, batch dim in_dim removed *)
| BTen (sh : list nat).        (* torch's BatchedTensor: dim in_dim hidden *)

Definition create1 (a : aleaf) (k : option nat) : binp :=
  match k, a with
  | None, ATd b => BCopy b
  | None, _ => BSame a
  | Some k, ATd b => BTd (td_add b k)
  | Some k, ATen s => BTen (remove_nth s k)
  | Some k, AObj => BSame AObj        (* unreachable after [process] *)
  end.

Fixpoint create (flat : list aleaf) (dims : list (option nat)) : list binp :=
  match flat, dims with
  | a :: flat', k :: dims' => create1 a k :: create flat' dims'
  | _, _ => []
  end.

(* ------------------------------------------------------------------ outputs *)
Inductive oleaf :=
| OTd (bsz : list nat) (feats : list (list nat))   (* a tensordict: batch size as the function returns it, feature shapes of its leaves *)
| OTen (sh : list nat) (batched : bool)            (* a tensor: batched at this level or not (a constant) *)
| OObj.                                            (* anything else *)

Inductive uerr :=
| UCheck          (* _check_out_dims_is_int_or_int_pytree: an out_dim neither int nor None  (ValueError) *)
| UIncompatible   (* out_dims not compatible with the structure of the outputs                (ValueError) *)
| UValue          (* torch's _maybe_remove_batch_dim: batched tensor with None / non tensor with an int (ValueError) *)
| UType           (* a tensordict output with out_dim None: list.insert(None, B)               (TypeError) *)
| UIndex          (* torch: out_dim outside the leaf / tensor rank                              (IndexError) *)
| URuntime.       (* TensorDict(...): the leaves do not start with the new batch size           (RuntimeError) *)

Inductive ores := RTd (bsz : list nat) | RTen (sh : list nat) | RObj.

Definition remove_tensor (sh : list nat) (B : nat) (o : Z) : uerr + ores :=
  match torch_wrap o (length sh + 1) with
  | Some p => inr (RTen (insert_at sh p B))
  | None => inl UIndex
  end.

(* shape-level version of [td_remove_raw] / [td_remove_c]: same steps, same order *)
Definition remove_td_raw (bsz : list nat) (feats : list (list nat)) (B : nat) (o : Z) : uerr + ores :=
  match all_some (map (fun f => match torch_wrap o (length bsz + length f + 1) with
                                | Some p => Some (insert_at (bsz ++ f) p B) | None => None end) feats) with
  | None => inl UIndex
  | Some shapes =>
      let nbs := py_insert bsz o B in
      if forallb (fun sh => list_eqb (firstn (length nbs) sh) nbs) shapes then inr (RTd nbs) else inl URuntime
  end.

Definition remove_td (bsz : list nat) (feats : list (list nat)) (B : nat) (o : Z) : uerr + ores :=
  match torch_wrap o (length bsz + 1) with
  | None => inl UIndex
  | Some p => remove_td_raw bsz feats B (Z.of_nat p)
  end.

Definition unwrap1 (B : nat) (x : oleaf) (d : dleaf) : uerr + ores :=
  match x, d with
  | _, LBad => inl UCheck                                   (* unreachable after [check_out_dims] *)
  | OTd _ _, LNone => inl UType
  | OTd b fs, LInt o => remove_td b fs B o
  | OTen sh true, LNone => inl UValue
  | OTen sh false, LNone => inr (RTen sh)
  | OTen sh _, LInt o => remove_tensor sh B o
  | OObj, LNone => inr RObj
  | OObj, LInt _ => inl UValue
  end.

Fixpoint unwrap_all (B : nat) (outs : list oleaf) (dims : list dleaf) : uerr + list ores :=
  match outs, dims with
  | x :: outs', d :: dims' =>
      match unwrap1 B x d with
      | inl e => inl e
      | inr r => match unwrap_all B outs' dims' with inl e => inl e | inr rs => inr (r :: rs) end
      end
  | _, _ => inr []
  end.

Definition has_bad (d : ptree dleaf) : bool :=
  existsb (fun x => match x with LBad => true | _ => false end) (flatten d).

Definition is_tensor_like (x : oleaf) : bool := match x with OObj => false | _ => true end.

(* the flat out_dims *)
Definition flat_out_dims (out_dims : ptree dleaf) (outs : ptree oleaf) : option (list dleaf) :=
  match outs with
  | PLeaf x =>
      if is_tensor_like x then
        match out_dims with
        | PLeaf (LInt o) => Some [LInt o]
        | PTup [PLeaf d] => Some [d]
        | PLeaf LNone => Some [LNone]
        | _ => None
        end
      else bcast out_dims outs
  | _ => bcast out_dims outs
  end.

(* [check_out_dims] runs before the inputs are looked at (vmap_impl) *)
Definition check_out_dims (out_dims : ptree dleaf) : bool := negb (has_bad out_dims).

Definition unwrap (B : nat) (out_dims : ptree dleaf) (outs : ptree oleaf) : uerr + list ores :=
  match flat_out_dims out_dims outs with
  | None => inl UIncompatible
  | Some fd => unwrap_all B (flatten outs) fd
  end.
