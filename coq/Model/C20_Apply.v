(* C20 — apply / named_apply over the option lattice.  Model of
     _td.py::TensorDict._apply_nest            (result creation, out / inplace, default, filter_empty, nested dispatch)
     base.py::apply / named_apply / apply_ / _fast_apply   (front-ends: which options they forward, propagate_lock)
     tensorclass.py::NonTensorData._apply_nest (non-tensor entries under the default is_leaf)
     base.py::_validate_value + _td.py::_set_str           (what happens to a value on its way into the result: device
                                                            cast, dim-name refinement / adoption, lock check, copy_)
     base.py::empty(recurse=True)              (the substitute for a missing nested operand when default= is given)
     _lazy.py::LazyStackedTensorDict._apply_nest (per-member dispatch)
   The user function is a Section variable: every definition and theorem holds for every function.
   Definitions only. *)
From Coq Require Import ZArith List String Bool.
Import ListNotations.
Open Scope string_scope.

Inductive dev := CPU | META.
Definition dnames := option (list (option string)).          (* None: _td_dim_names is None *)
Record meta := mkMeta { m_bs : list nat; m_dev : option dev; m_names : dnames; m_lock : bool }.
(* identity of an object (a tensordict node, a non-tensor entry, the storage of a leaf):
   one of the objects handed to the call (numbered by the caller) or an object created during the call *)
Inductive obj := Old (z : Z) | New.
Inductive kind := KTensor | KNonT | KNode.
(* exception class enum: KeyError, RuntimeError, ValueError, AttributeError, TypeError, IndexError *)
Inductive err := EKey | ERuntime | EValue | EAttr | EType | EIndex.
Inductive res (X : Type) := Ok (x : X) | Raised (e : err) | Unmodelled.
Arguments Ok {X} x.
Arguments Raised {X} e.
Arguments Unmodelled {X}.
Definition bind {X Y} (r : res X) (f : X -> res Y) : res Y :=
  match r with Ok x => f x | Raised e => Raised e | Unmodelled => Unmodelled end.

Definition dev_eqb (a b : dev) : bool := match a, b with CPU, CPU => true | META, META => true | _, _ => false end.
Definition odev_eqb (a b : option dev) : bool :=
  match a, b with None, None => true | Some x, Some y => dev_eqb x y | _, _ => false end.
Definition ostr_eqb (a b : option string) : bool :=
  match a, b with None, None => true | Some x, Some y => String.eqb x y | _, _ => false end.
Fixpoint list_eqb {X} (e : X -> X -> bool) (a b : list X) : bool :=
  match a, b with
  | [], [] => true
  | x :: a', y :: b' => e x y && list_eqb e a' b'
  | _, _ => false
  end.
Definition is_none {X} (o : option X) : bool := match o with None => true | Some _ => false end.
Definition nil_b {X} (l : list X) : bool := match l with [] => true | _ => false end.

(* td.names *)
Definition names_list (m : meta) : list (option string) :=
  match m_names m with Some l => l | None => repeat None (List.length (m_bs m)) end.
Definition set_dev (m : meta) (d : option dev) : meta := mkMeta (m_bs m) d (m_names m) (m_lock m).
Definition set_lock (m : meta) (b : bool) : meta := mkMeta (m_bs m) (m_dev m) (m_names m) b.
Definition set_names (m : meta) (n : dnames) : meta := mkMeta (m_bs m) (m_dev m) n (m_lock m).
Definition set_bs (m : meta) (b : list nat) : meta := mkMeta b (m_dev m) (m_names m) (m_lock m).
(* the names setter: all-None means no names *)
Definition norm_names (l : list (option string)) : dnames := if forallb is_none l then None else Some l.

Section Trees.
Variable A : Type.          (* what the user function returns *)

Inductive value := VOld (z : Z) | VNew (a : A).
(* insertion-ordered tree.  A tensor leaf = its storage + its content; non-tensor entry = object, payload, metadata *)
Inductive tree :=
| Leaf (s : obj) (v : value)
| NonT (o : obj) (d : Z) (m : meta)
| Node (o : obj) (m : meta) (f : forest)
with forest := FNil | FCons (k : string) (t : tree) (f : forest).

Definition kind_of (t : tree) : kind := match t with Leaf _ _ => KTensor | NonT _ _ _ => KNonT | Node _ _ _ => KNode end.

Fixpoint fget (f : forest) (k : string) : option tree :=
  match f with FNil => None | FCons k' t r => if String.eqb k k' then Some t else fget r k end.
(* dict assignment: an existing key keeps its position, a new key is appended *)
Fixpoint fset (f : forest) (k : string) (t : tree) : forest :=
  match f with
  | FNil => FCons k t FNil
  | FCons k' t' r => if String.eqb k k' then FCons k' t r else FCons k' t' (fset r k t)
  end.
Fixpoint fkeys (f : forest) : list string := match f with FNil => [] | FCons k _ r => k :: fkeys r end.

(* TensorDict.is_empty: no tensor and no non-tensor entry at any depth *)
Fixpoint f_is_empty (f : forest) : bool :=
  match f with
  | FNil => true
  | FCons _ t r => match t with Leaf _ _ => false | NonT _ _ _ => false | Node _ _ g => f_is_empty g end && f_is_empty r
  end.

(* td.to(device): new node objects carrying the device, leaves cast (storage kept when nothing moves) *)
Fixpoint f_to_dev (d : dev) (f : forest) : forest :=
  match f with
  | FNil => FNil
  | FCons k t r =>
      FCons k (match t with
               | Leaf s v => Leaf s v
               | NonT o p m => NonT New p (set_lock (set_dev m (Some d)) false)
               | Node o m g => Node New (set_lock (set_dev m (Some d)) false) (f_to_dev d g)
               end) (f_to_dev d r)
  end.
Definition t_to_dev (d : dev) (t : tree) : tree :=
  match t with
  | Leaf s v => Leaf s v
  | NonT o p m => NonT New p (set_lock (set_dev m (Some d)) false)
  | Node o m g => Node New (set_lock (set_dev m (Some d)) false) (f_to_dev d g)
  end.

(* names setter + _rename_subtds: the first len(names) dims of every nested collection are renamed *)
Definition renamed (ns : list (option string)) (m : meta) : meta :=
  set_names m (norm_names (ns ++ skipn (List.length ns) (names_list m))).
Fixpoint f_rename (ns : list (option string)) (f : forest) : forest :=
  match f with
  | FNil => FNil
  | FCons k t r =>
      FCons k (match t with
               | Leaf s v => Leaf s v
               | NonT o p m => NonT o p (renamed ns m)
               | Node o m g => Node o (renamed ns m) (f_rename (names_list (renamed ns m)) g)
               end) (f_rename ns r)
  end.
(* value.clone(False): new node objects, same leaves *)
Fixpoint f_clone (f : forest) : forest :=
  match f with
  | FNil => FNil
  | FCons k t r =>
      FCons k (match t with
               | Leaf s v => Leaf s v
               | NonT o p m => NonT New p (set_lock m false)
               | Node o m g => Node New (set_lock m false) (f_clone g)
               end) (f_clone r)
  end.

(* lock_(): the node and every nested collection *)
Fixpoint f_lock (f : forest) : forest :=
  match f with
  | FNil => FNil
  | FCons k t r =>
      FCons k (match t with
               | Leaf s v => Leaf s v
               | NonT o p m => NonT o p (set_lock m true)
               | Node o m g => Node o (set_lock m true) (f_lock g)
               end) (f_lock r)
  end.

(* node._device = device on every nested collection (objects and lock states unchanged) *)
Fixpoint f_set_dev (d : option dev) (f : forest) : forest :=
  match f with
  | FNil => FNil
  | FCons k t r =>
      FCons k (match t with
               | Leaf s v => Leaf s v
               | NonT o p m => NonT o p (set_dev m d)
               | Node o m g => Node o (set_dev m d) (f_set_dev d g)
               end) (f_set_dev d r)
  end.

Definition meta_of (t : tree) : option meta :=
  match t with Leaf _ _ => None | NonT _ _ m => Some m | Node _ m _ => Some m end.

(* ------------------------------------------------------------------ options *)
Record opts := mkOpts {
  o_inplace : bool;
  o_default : bool;                       (* default= given (the default object itself is opaque: [None] in an argument list) *)
  o_fe : option bool;                     (* filter_empty: None / True / False *)
  o_named : bool;
  o_nested_keys : bool;
  o_bs : option (list nat);               (* batch_size override *)
  o_dev : option (option dev);            (* device override: absent / None / a device *)
  o_checked : bool;
  o_is_leaf : kind -> bool                (* is_leaf(type(item)) *)
}.

Variable o : opts.
(* fn(key-or-path?, item, *others) -> a value or None; an absent argument is the default object *)
Variable fn : option (list string) -> tree -> list (option tree) -> option A.

(* named: fn(key, …) or fn(prefix + (key,), …) with nested_keys (a one-element path is the string itself) *)
Definition keyarg (prefix : list string) (k : string) : option (list string) :=
  if o_named o then Some (if o_nested_keys o then (prefix ++ [k])%list else [k]) else None.

(* _other._get_str(key, …) *)
Definition oget (t : tree) (k : string) : res (option tree) :=
  match t with
  | Node _ _ f => Ok (fget f k)
  | Leaf _ _ => Raised EAttr             (* 'Tensor' object has no attribute '_get_str' *)
  | NonT _ _ _ => Unmodelled
  end.

(* [_other._get_str(key, default=default) for _other in others] *)
Fixpoint others_leaf (dflt : bool) (others : list tree) (k : string) : res (list (option tree)) :=
  match others with
  | [] => Ok []
  | ot :: r =>
      bind (oget ot k) (fun x =>
      match x with
      | Some t => bind (others_leaf dflt r k) (fun l => Ok (Some t :: l))
      | None => if dflt then bind (others_leaf dflt r k) (fun l => Ok (None :: l)) else Raised EKey
      end)
  end.

(* the operands handed to a nested level: with default=, a missing one is replaced by item.empty() — the empty
   stand-in [sub] of the nested entry itself (repair of C20-b; before it: self.empty(recurse=True) of the level's self,
   in which a key of the nested entry could be found) *)
Fixpoint others_node (dflt : bool) (sub : tree) (others : list tree) (k : string) : res (list tree) :=
  match others with
  | [] => Ok []
  | ot :: r =>
      bind (oget ot k) (fun x =>
      match x with
      | Some t => bind (others_node dflt sub r k) (fun l => Ok (t :: l))
      | None => if dflt then bind (others_node dflt sub r k) (fun l => Ok (sub :: l))
                else Raised EKey
      end)
  end.
(* item.empty(): same metadata, no entry, a new unlocked object *)
Definition stand_in (item : tree) : tree :=
  match item with
  | Node _ m _ => Node New (set_lock m false) FNil
  | NonT _ d m => NonT New d (set_lock m false)
  | Leaf s v => Leaf s v
  end.

(* out._get_str(key, default=None) if out is not None else None *)
Definition out_child (out : option tree) (k : string) : res (option tree) :=
  match out with None => Ok None | Some t => oget t k end.

(* ------------------------------------------------------------------ the result under construction *)
Record racc := mkAcc { r_obj : obj; r_meta : meta; r_f : forest }.
Definition acc_tree (r : racc) : tree := Node (r_obj r) (r_meta r) (r_f r).

(* make_result: self.empty(batch_size=…, device=…, names=…); names erased when the batch size is overridden *)
Definition result_meta (sm : meta) (names : option dnames) : meta :=
  mkMeta (match o_bs o with Some b => b | None => m_bs sm end)
         (match o_dev o with Some d => d | None => m_dev sm end)
         (match names with Some n => n | None => match o_bs o with Some _ => None | None => m_names sm end end)
         false.
Definition make_result (sm : meta) (names : option dnames) : racc := mkAcc New (result_meta sm names) FNil.

(* NonTensorData._apply_nest: self.empty(batch_size=…, device=…) — fn is not called; an entry that out= holds under the
   key is not handed back (repair of C20-f): the caller writes the new entry, which carries self's data *)
Definition nont_apply (d : Z) (m : meta) (out_k : option tree) : tree := NonT New d (result_meta m None).

(* _validate_value for a tensor collection (checked=False): batch prefix, device cast, dim names.
   Returns the (possibly renamed) container and the (possibly replaced) value. *)
Definition firstn_names (n : nat) (m : meta) : list (option string) := firstn n (names_list m).
Fixpoint refine_ok (cur want : list (option string)) : bool :=
  match want with
  | [] => true
  | w :: want' =>
      match cur with
      | [] => false
      | c :: cur' => (is_none c || ostr_eqb c w) && refine_ok cur' want'
      end
  end.
Definition with_meta (t : tree) (f : meta -> meta) (fresh : bool) : tree :=
  match t with
  | Leaf s v => Leaf s v
  | NonT ob p m => NonT (if fresh then New else ob) p (f m)
  | Node ob m g => Node (if fresh then New else ob) (f m) g
  end.
Definition validate (r : racc) (v : tree) : res (racc * tree) :=
  match meta_of v with
  | None => Ok (r, v)                     (* tensors: shape / device of what fn returns are fn's business *)
  | Some vm0 =>
      let pm := r_meta r in
      let bd := List.length (m_bs pm) in
      (* 1. batch dims *)
      let step1 : res tree :=
        if nil_b (m_bs pm) || list_eqb Nat.eqb (firstn bd (m_bs vm0)) (m_bs pm) then Ok v
        else match v with
             | NonT _ p m =>
                 (* clone(False); batch_size = …: the dim names follow the new number of dims (cut / padded with None) *)
                 Ok (NonT New p (set_lock (set_names (set_bs m (m_bs pm))
                                             (match m_names m with
                                              | None => None
                                              | Some l => Some (firstn bd (l ++ repeat None bd))
                                              end)) false))
             | _ => Unmodelled
             end in
      bind step1 (fun v1 =>
      (* 2. device *)
      let v2 := match m_dev pm with
                | Some d => match meta_of v1 with
                            | Some vm => if odev_eqb (m_dev vm) (Some d) then v1 else t_to_dev d v1
                            | None => v1 end
                | None => v1 end in
      (* 3. names (skipped when the batch size is empty) *)
      if nil_b (m_bs pm) then Ok (r, v2) else
      match meta_of v2 with
      | None => Ok (r, v2)
      | Some vm =>
          match m_names pm with
          | Some pn =>
              if list_eqb ostr_eqb (firstn_names bd vm) pn then Ok (r, v2)
              else if negb (refine_ok (names_list vm) pn) then Raised ERuntime         (* refine_names: cannot coerce *)
              else if negb (Nat.eqb (List.length pn) (List.length (m_bs vm))) then Raised EValue   (* names setter: length *)
              else Ok (r, match v2 with
                          | Leaf s x => Leaf s x
                          | NonT _ p m => NonT New p (set_lock (set_names m (norm_names pn)) false)
                          | Node _ m g => Node New (set_lock (set_names m (norm_names pn)) false) (f_rename pn (f_clone g))
                          end)
          | None =>
              match m_names vm with
              | Some _ =>
                  (* self.names = value.names[:batch_dims]: the container adopts them and renames its present entries *)
                  let ns := firstn_names bd vm in
                  Ok (mkAcc (r_obj r) (set_names pm (norm_names ns)) (f_rename ns (r_f r)), v2)
              | None => Ok (r, v2)
              end
          end
      end)
  end.

(* result._set_str(key, item_trsf, inplace=BEST_ATTEMPT_INPLACE if inplace else False, validated=checked) *)
Definition set_item (r : racc) (k : string) (v : tree) : res racc :=
  let dest := if o_inplace o then fget (r_f r) k else None in
  bind (if o_checked o then Ok (r, v) else validate r v) (fun rv =>
  let '(r1, v1) := rv in
  match dest with
  | None =>
      if m_lock (r_meta r1) then Raised ERuntime
      else Ok (mkAcc (r_obj r1) (r_meta r1) (fset (r_f r1) k v1))
  | Some d =>
      match d, v1 with
      | Leaf s _, Leaf _ x => Ok (mkAcc (r_obj r1) (r_meta r1) (fset (r_f r1) k (Leaf s x)))    (* dest.copy_(value) *)
      | Leaf _ _, _ => Raised EValue
      | NonT od _ dm, NonT ov vp _ =>
          (* dest.update(value, inplace=True): nothing to do when value carries dest's own data object (a copy made by
             NonTensorData._apply_nest, or dest itself) — also under a lock (repair of C20-c); else self.data = value.data,
             which a lock refuses *)
          let own := match ov, od with
                     | New, _ => true
                     | Old b, Old a => Z.eqb a b
                     | _, _ => false
                     end in
          if own then Ok (mkAcc (r_obj r1) (r_meta r1) (fset (r_f r1) k (NonT od vp dm)))
          else if m_lock dm then Unmodelled
          else Ok (mkAcc (r_obj r1) (r_meta r1) (fset (r_f r1) k (NonT od vp dm)))
      | NonT _ _ _, Leaf New _ => Raised EValue            (* a tensor returned by fn over a non-tensor entry *)
      | NonT _ _ _, _ => Unmodelled                        (* an entry of out= of another kind handed back for a non-tensor entry *)
      | Node od _ _, Node ov _ _ =>
          (* dest.update(value, inplace=True) with value the same object, already written by the nested level *)
          match od, ov with
          | Old a, Old b => if Z.eqb a b then Ok (mkAcc (r_obj r1) (r_meta r1) (fset (r_f r1) k v1)) else Unmodelled
          | _, _ => Unmodelled
          end
      | Node _ _ _, _ => Raised EValue
      end
  end).

(* the beginning of _apply_nest: which object is written *)
Definition level_init (so : obj) (sm : meta) (sf : forest) (out : option tree) : res (option racc) :=
  if o_inplace o then Ok (Some (mkAcc so sm sf))
  else match out with
       | None => Ok None
       | Some (Leaf _ _) => Raised EAttr
       | Some (NonT _ _ _) => Unmodelled
       | Some (Node oo om og) =>
           if m_lock om then Raised ERuntime
           else if match o_bs o with Some b => negb (list_eqb Nat.eqb b (m_bs om)) | None => false end then Raised ERuntime
           else match o_dev o with
                | Some d =>
                    if odev_eqb d (m_dev om) then Ok (Some (mkAcc oo om og))
                    else if o_checked o then
                      match d with
                      | None => Raised EType          (* device = torch.device(None) *)
                      | Some _ =>
                      (* out._device = device; for node in out.values(True, True, is_leaf=_is_tensor_collection): node._device = device *)
                      Ok (Some (mkAcc oo (set_dev om d) (f_set_dev d og)))
                      end
                    else Raised ERuntime
                | None => Ok (Some (mkAcc oo om og))
                end
       end.

(* the end of _apply_nest *)
Definition level_finish (sm : meta) (sf : forest) (names : option dnames) (acc : option racc) (any : bool) : option tree :=
  match o_fe o with
  | Some true => if any then Some (acc_tree (match acc with Some a => a | None => make_result sm names end)) else None
  | None => if negb any && negb (f_is_empty sf) then None
            else Some (acc_tree (match acc with Some a => a | None => make_result sm names end))
  | Some false => Some (acc_tree (match acc with Some a => a | None => make_result sm names end))
  end.

(* the loop over self.items().  [con] = call_on_nested and [names] = names= reach the root level only. *)
Fixpoint apply_items (con : bool) (prefix : list string) (sm : meta) (sf : forest) (others : list tree) (out : option tree)
         (names : option dnames) (items : forest) (acc : option racc) (any : bool) {struct items}
  : res (option racc * bool) :=
  match items with
  | FNil => Ok (acc, any)
  | FCons k item rest =>
      let trsf : res (option tree) :=
        if negb con && negb (o_is_leaf o (kind_of item)) then
          bind (others_node (o_default o) (stand_in item) others k) (fun others' =>
          (* out._get_str(key): out is the object being written (device rewrite, adopted names included) *)
          let out_now := match out, acc with
                         | Some _, Some a => if o_inplace o then out else Some (acc_tree a)
                         | _, _ => out
                         end in
          bind (out_child out_now k) (fun out_k =>
          match item with
          | Node io im g =>
              bind (level_init io im g out_k) (fun init =>
              bind (apply_items false (prefix ++ [k])%list im g others' out_k None g init false) (fun ra =>
              Ok (level_finish im g None (fst ra) (snd ra))))
          | NonT _ d im => Ok (Some (nont_apply d im out_k))
          | Leaf _ _ => Raised EAttr         (* 'Tensor' object has no attribute '_apply_nest' *)
          end))
        else
          bind (others_leaf (o_default o) others k) (fun args =>
          Ok (option_map (fun a => Leaf New (VNew a)) (fn (keyarg prefix k) item args))) in
      bind trsf (fun t =>
      match t with
      | Some v =>
          bind (set_item (match acc with Some a => a | None => make_result sm names end) k v) (fun acc' =>
          apply_items con prefix sm sf others out names rest (Some acc') true)
      | None => apply_items con prefix sm sf others out names rest acc any
      end)
  end.

(* one call of _apply_nest on a node *)
Definition apply_nest (con : bool) (prefix : list string) (so : obj) (sm : meta) (sf : forest) (others : list tree)
           (out : option tree) (names : option dnames) : res (option tree) :=
  bind (level_init so sm sf out) (fun init =>
  bind (apply_items con prefix sm sf others out names sf init false) (fun ra =>
  Ok (level_finish sm sf names (fst ra) (snd ra)))).

Definition t_lock (t : tree) : tree :=
  match t with
  | Leaf s v => Leaf s v
  | NonT ob p m => NonT ob p (set_lock m true)
  | Node ob m g => Node ob (set_lock m true) (f_lock g)
  end.

(* apply / named_apply / _fast_apply: _apply_nest, then
   `if propagate_lock and not inplace and self.is_locked and result is not None: result.lock_()` *)
Definition front (con propagate : bool) (self : tree) (others : list tree) (out : option tree) (names : option dnames)
  : res (option tree) :=
  match self with
  | Node so sm sf =>
      bind (apply_nest con [] so sm sf others out names) (fun r =>
      Ok (if propagate && negb (o_inplace o) && m_lock sm then option_map t_lock r else r))
  | _ => Unmodelled
  end.

(* ------------------------------------------------------------------ lazy stacks: per-member dispatch
   (batch_size override absent: with it the call is TensorDict._apply_nest on the stacked view, i.e. [front]).
   names= / batch_size= are not forwarded to the members.  _zip_strict(self.tensordicts, *others): a ValueError when an
   operand runs out of members, raised at that position.
   Every other operand is given as the list of its slices ALONG SELF'S STACK DIM: the i-th member of self is paired with
   other[(slice(None),) * self.stack_dim + (i,)] = other.unbind(self.stack_dim)[i], whatever the representation of the
   operand (a lazy stack along the same or along another dim, a dense tensordict, a tensorclass). *)
Fixpoint heads (ls : list (list tree)) : option (list tree) :=
  match ls with
  | [] => Some []
  | l :: r => match l, heads r with x :: _, Some h => Some (x :: h) | _, _ => None end
  end.
Fixpoint lazy_members (con : bool) (prefix : list string) (members : list tree) (others : list (list tree))
         (out : option (list tree)) : res (list (tree * option tree)) :=
  match members with
  | [] => if forallb nil_b others then Ok [] else Raised EValue
  | m :: ms =>
      match heads others with
      | None => Raised EValue
      | Some oth =>
          match m with
          | Node so sm sf =>
              match out with
              | Some [] => Raised EIndex             (* out[i] on an out= with fewer members *)
              | _ =>
                  bind (apply_nest con prefix so sm sf oth (match out with Some (x :: _) => Some x | _ => None end) None) (fun r =>
                  bind (lazy_members con prefix ms (map (@tl tree) others) (option_map (@tl tree) out)) (fun rs => Ok ((m, r) :: rs)))
              end
          | _ => Unmodelled
          end
      end
  end.

Inductive lazy_ret :=
| LNone                                    (* returned None *)
| LStack (members : list tree).            (* a new lazy stack of the member results; self with its members when inplace *)

Definition truthy_dev (d : option (option dev)) : bool := match d with Some (Some _) => true | _ => false end.
Definition truthy_names (n : option dnames) : bool := match n with Some (Some (_ :: _)) => true | _ => false end.

(* [lazy_bs]: the batch_size= given to the lazy stack together with out= (it is not forwarded to the members; without
   out= the call goes to the stacked view instead) *)
Definition lazy_apply (con : bool) (members : list tree) (others : list (list tree)) (out : option (list tree))
           (names : option dnames) (lazy_bs : option (list nat)) : res lazy_ret :=
  if o_inplace o && (truthy_dev (o_dev o) || truthy_names names || match lazy_bs with Some (_ :: _) => true | _ => false end)
  then Raised EValue
  else
    bind (lazy_members con [] members others out) (fun rs =>
    let rets := map snd rs in
    if forallb is_none rets && negb (match o_fe o with Some false => true | _ => false end) then Ok LNone
    else if o_inplace o then Ok (LStack (map (fun mr => match snd mr with Some t => t | None => fst mr end) rs))
    else if existsb is_none rets then Raised ERuntime      (* the stack cannot be rebuilt from a mix of None and results *)
    else Ok (LStack (flat_map (fun r => match r with Some t => [t] | None => [] end) rets))).

(* the front-ends on a lazy stack: result.lock_() locks every member *)
Definition lazy_front (con propagate : bool) (members : list tree) (others : list (list tree)) (out : option (list tree))
           (names : option dnames) (lazy_bs : option (list nat)) : res lazy_ret :=
  bind (lazy_apply con members others out names lazy_bs) (fun r =>
  Ok (match r with
      | LStack l =>
          if propagate && negb (o_inplace o)
             && forallb (fun m => match m with Node _ mm _ => m_lock mm | _ => false end) members
          then LStack (map t_lock l) else r
      | LNone => LNone
      end)).

End Trees.

Arguments Leaf {A} s v.
Arguments NonT {A} o d m.
Arguments Node {A} o m f.
Arguments FNil {A}.
Arguments FCons {A} k t f.
Arguments VOld {A} z.
Arguments VNew {A} a.
