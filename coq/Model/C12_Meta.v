(* Model of the METADATA of the result of apply, in its single-threaded and its thread-pool form:
     _td.py::_apply_nest            (result = self | out | make_result(); the checks on out=: locked, batch_size, device with the
                                     checked-mode device override; make_result's rule for names; what is forwarded to nested
                                     tensordicts: batch_size, device, checked, inplace, out[key] — NOT names)
     _td.py::_multithread_rebuild   (the second copy of the same logic, run after the flat phase; repairs S16 / C12-c / C12-d)
     base.py::_validate_value       (a nested result set without checked=True takes the dim names of its parent)
   Only the nested tensordicts matter here: a tensordict is its metadata (batch size, dim names, device, lock) and its nested
   entries in key order.  Which entries survive (None results, filter_empty) is the business of Model/C12_Sched.v; this model is
   the metadata every surviving node of the result carries.  The two forms are transcribed separately, as the code has them.
   Definitions only. *)
From Coq Require Import List String Bool Arith.
Import ListNotations.
Open Scope string_scope.

Record meta := { m_bs : list nat; m_names : option (list string); m_dev : option nat; m_locked : bool }.

Inductive mtree := MNode (m : meta) (kids : mforest)
with mforest := MNil | MCons (k : string) (t : mtree) (r : mforest).

Inductive merr :=
| MLocked     (* RuntimeError: out is locked *)
| MBatch      (* RuntimeError: batch_size and out.batch_size must be equal *)
| MDevice     (* RuntimeError: device and out.device must be equal *)
| MTypeErr    (* torch.device(None) *)
| MNames.     (* RuntimeError: refine_names cannot coerce the names of a nested result *)
Inductive mres (A : Type) := MOk (a : A) | MRaised (e : merr).
Arguments MOk {A} a.
Arguments MRaised {A} e.
Definition mbind {A B} (r : mres A) (f : A -> mres B) : mres B :=
  match r with MOk a => f a | MRaised e => MRaised e end.

(* batch_size=, inplace=, checked= : forwarded unchanged to every nested level.  device= and names= are arguments of the
   functions below: None = NO_DEFAULT, Some x = given (x = None: the value None) *)
(* mo_bs_size: batch_size= was given as a torch.Size (a list or tuple never compares equal to out.batch_size) *)
(* mo_dev_obj: device= was given as a torch.device (a string never compares equal to out.device) *)
Record mopts := { mo_bs : option (list nat); mo_bs_size : bool; mo_dev_obj : bool; mo_inplace : bool; mo_checked : bool }.

Definition list_eqb {X} (eqb : X -> X -> bool) : list X -> list X -> bool :=
  fix go a b := match a, b with
                | [], [] => true
                | x :: a', y :: b' => eqb x y && go a' b'
                | _, _ => false
                end.
Definition bs_eqb := list_eqb Nat.eqb.
Definition dev_eqb (a b : option nat) : bool :=
  match a, b with None, None => true | Some x, Some y => Nat.eqb x y | _, _ => false end.
Definition names_eqb (a b : option (list string)) : bool :=
  match a, b with None, None => true | Some x, Some y => list_eqb String.eqb x y | _, _ => false end.

Fixpoint mget (f : mforest) (k : string) : option mtree :=
  match f with MNil => None | MCons k' t r => if String.eqb k k' then Some t else mget r k end.
Fixpoint mset (f : mforest) (k : string) (t : mtree) : mforest :=
  match f with
  | MNil => MCons k t MNil
  | MCons k' t' r => if String.eqb k k' then MCons k' t r else MCons k' t' (mset r k t)
  end.

(* out._device = device; for node in out.values(True, True, is_leaf=_is_tensor_collection): node._device = device *)
Fixpoint set_dev_t (d : option nat) (t : mtree) : mtree :=
  match t with MNode m kids =>
    MNode {| m_bs := m_bs m; m_names := m_names m; m_dev := d; m_locked := m_locked m |} (set_dev_f d kids) end
with set_dev_f (d : option nat) (f : mforest) : mforest :=
  match f with MNil => MNil | MCons k t r => MCons k (set_dev_t d t) (set_dev_f d r) end.

(* names setter / refine_names / rename_: the leading dims of a tensordict AND of all its nested tensordicts take the names *)
Definition with_names (nm : list string) (m : meta) : meta :=
  {| m_bs := m_bs m;
     m_names := Some (nm ++ skipn (List.length nm) (match m_names m with Some c => c | None => [] end))%list;
     m_dev := m_dev m; m_locked := m_locked m |}.
Fixpoint set_names_t (nm : list string) (t : mtree) : mtree :=
  match t with MNode m kids => MNode (with_names nm m) (set_names_f nm kids) end
with set_names_f (nm : list string) (f : mforest) : mforest :=
  match f with MNil => MNil | MCons k t r => MCons k (set_names_t nm t) (set_names_f nm r) end.

(* result._set_str(key, nested_result, validated=checked): without checked, _validate_value aligns the dim names of the
   container (parent, with the entries [acc] it holds already) and of the nested result:
     container has names, they differ: value.clone(False).refine_names( *self.names ) — a nested result without names takes them
       (with its own nested tensordicts), one with OTHER names makes refine_names raise;
     container has none, the nested result has: self.names = value.names[:self.batch_dims] — the container and the entries it
       holds already take them *)
Definition adopt (checked : bool) (parent : meta) (acc : mforest) (child0 : mtree) : mres (meta * mforest * mtree) :=
  if checked then MOk (parent, acc, child0) else
  (* `if device is not None and value.device != device: value = value.to(device)` — the nested result and everything in it *)
  let child := match m_dev parent, child0 with
               | Some d, MNode cm _ => if dev_eqb (m_dev cm) (Some d) then child0 else set_dev_t (Some d) child0
               | None, _ => child0
               end in
  match child with MNode cm _ =>
    match m_names parent, m_names cm with
    | Some nm, Some c => if list_eqb String.eqb (firstn (List.length nm) c) nm then MOk (parent, acc, child) else MRaised MNames
    | Some nm, None => MOk (parent, acc, set_names_t nm child)
    | None, Some c => let nm := firstn (List.length (m_bs parent)) c in
                      MOk ({| m_bs := m_bs parent; m_names := Some nm; m_dev := m_dev parent; m_locked := m_locked parent |},
                           set_names_f nm acc, child)
    | None, None => MOk (parent, acc, child)
    end
  end.

(*  def make_result(names=names, batch_size=batch_size):
        if names is NO_DEFAULT:
            if batch_size is not None: names = None
            else: names = self.names if self._has_names() else None
        return self.empty(batch_size=batch_size, device=device, names=names)       (empty: device NO_DEFAULT -> self's) *)
Definition make_result (o : mopts) (names : option (option (list string))) (dev : option (option nat)) (self : meta) : meta :=
  {| m_bs := match mo_bs o with Some b => b | None => m_bs self end;
     m_names := match names with
                | Some nm => nm
                | None => match mo_bs o with Some _ => None | None => m_names self end
                end;
     m_dev := match dev with Some d => d | None => m_dev self end;
     m_locked := false |}.

(* the block `elif out is not None:` — the checks, and the device override of the whole of out in checked mode *)
Definition check_out (o : mopts) (dev : option (option nat)) (out : mtree) : mres mtree :=
  match out with MNode om _ =>
    if m_locked om then MRaised MLocked else
    (* `batch_size != out.batch_size`: a list is never equal to a torch.Size *)
    if match mo_bs o with Some b => negb (mo_bs_size o && bs_eqb b (m_bs om)) | None => false end then MRaised MBatch else
    match dev with
    | None => MOk out
    | Some d =>
        (* `device != out.device`: a string is never equal to a torch.device *)
        if mo_dev_obj o && dev_eqb d (m_dev om) then MOk out
        else if mo_checked o then match d with None => MRaised MTypeErr | Some _ => MOk (set_dev_t d out) end
        else MRaised MDevice
    end
  end.

(* ---------------------------------------------------------------- the single-threaded form: _apply_nest *)
Section ST.
Variable o : mopts.
Variable dev : option (option nat).      (* forwarded unchanged to the nested levels *)

Fixpoint st_meta (names : option (option (list string))) (self : mtree) (out : option mtree) {struct self} : mres mtree :=
  match self with
  | MNode sm kids =>
      if mo_inplace o then MOk self else
      match out with
      | Some ot =>
          mbind (check_out o dev ot) (fun ot' =>
          match ot' with MNode om okids =>
            mbind (st_kids om kids okids okids) (fun rk => MOk (MNode (fst rk) (snd rk))) end)
      | None =>
          let rm := make_result o names dev sm in
          mbind (st_kids rm kids MNil MNil) (fun rk => MOk (MNode (fst rk) (snd rk)))
      end
  end
(* for key, item in self.items(): item_trsf = item._apply_nest(..., out=out._get_str(key, default=None)) — names is NOT
   forwarded; result._set_str(key, item_trsf, validated=checked) *)
with st_kids (rm : meta) (kids : mforest) (okids : mforest) (acc : mforest) {struct kids} : mres (meta * mforest) :=
  match kids with
  | MNil => MOk (rm, acc)
  | MCons k item rest =>
      mbind (st_meta None item (mget okids k)) (fun r =>
      mbind (adopt (mo_checked o) rm acc r) (fun a =>
      st_kids (fst (fst a)) rest okids (mset (snd (fst a)) k (snd a))))
  end.
End ST.

(* ---------------------------------------------------------------- the thread-pool form: _multithread_rebuild *)
Section MT.
Variable o : mopts.
Variable dev : option (option nat).

Fixpoint mt_meta (names : option (option (list string))) (self : mtree) (out : option mtree) {struct self} : mres mtree :=
  match self with
  | MNode sm kids =>
      if mo_inplace o then MOk self else
      match out with
      | Some ot =>
          mbind (check_out o dev ot) (fun ot' =>
          match ot' with MNode om okids =>
            mbind (mt_kids om kids okids okids) (fun rk => MOk (MNode (fst rk) (snd rk))) end)
      | None =>
          (* make_result() is called before the loop here (after the first result in _apply_nest): empty() cannot fail *)
          let rm := make_result o names dev sm in
          mbind (mt_kids rm kids MNil MNil) (fun rk => MOk (MNode (fst rk) (snd rk)))
      end
  end
(* for key, local_future in zip(self.keys(), local_futures): td._multithread_rebuild(batch_size=, device=, inplace=, checked=,
   out=out._get_str(key, default=None), ...) — names is not forwarded (repair C12-c); the setter stores the nested result
   (directly in result._tensordict when checked, else through _set_str(validated=False)) *)
with mt_kids (rm : meta) (kids : mforest) (okids : mforest) (acc : mforest) {struct kids} : mres (meta * mforest) :=
  match kids with
  | MNil => MOk (rm, acc)
  | MCons k item rest =>
      mbind (mt_meta None item (mget okids k)) (fun r =>
      mbind (adopt (mo_checked o) rm acc r) (fun a =>
      mt_kids (fst (fst a)) rest okids (mset (snd (fst a)) k (snd a))))
  end.
End MT.

(* what the nested tensordicts of a result look like from outside *)
Fixpoint all_nodes_t (P : meta -> bool) (t : mtree) : bool :=
  match t with MNode m kids => P m && all_nodes_f P kids end
with all_nodes_f (P : meta -> bool) (f : mforest) : bool :=
  match f with MNil => true | MCons _ t r => all_nodes_t P t && all_nodes_f P r end.
