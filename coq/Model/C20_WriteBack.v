(* C20 — the in-place branch of TensorDict._apply_nest at one level, with the STORE made explicit.
     for key, item in self.items():  item_trsf = fn(item, …);  if item_trsf is not None:
         result._set_str(key, item_trsf, inplace=BEST_ATTEMPT_INPLACE)      (result is self; _SubTensorDict: result.set(key, item_trsf, inplace=True))
   The tree model (C20_Apply.v) keeps fn as a free symbol that yields a fresh value; here fn may also hand back the very
   object it was given, untouched or updated in place, and the container kind says whether items() hands out the stored
   tensors ([copies_items] = false: TensorDict, tensorclass, lazy-stack members, a _SubTensorDict under an int / slice
   index — views) or copies of them ([copies_items] = true: a _SubTensorDict under a list / integer-tensor / boolean-mask
   index — gathered rows of the parent).  [fast_path] = the variant `if inplace and item_trsf is item: continue`
   (seeded change C20-4; /repo has no such path: fast_path = false).
   Definitions only. *)
From Coq Require Import List String Bool.
Import ListNotations.
Open Scope string_scope.

Section WriteBack.
Variable V : Type.          (* the content of a tensor *)

(* what fn does with the object it is handed *)
Inductive fret :=
| FFresh (v : V)            (* returns a new tensor holding v *)
| FSame                     (* returns its argument, untouched *)
| FMut (v : V)              (* writes v into its argument and returns it *)
| FMutNone (v : V)          (* writes v into its argument and returns None *)
| FNone.                    (* returns None *)

(* the value fn's result stands for ([x]: the content of the entry) — what the reference computes on a clone *)
Definition fval (r : fret) (x : V) : option V :=
  match r with FFresh v => Some v | FSame => Some x | FMut v => Some v | FMutNone _ => None | FNone => None end.

Definition store := list (string * V).
Fixpoint aget (st : store) (k : string) : option V :=
  match st with [] => None | (k', v) :: r => if String.eqb k k' then Some v else aget r k end.
Fixpoint aset (st : store) (k : string) (v : V) : store :=
  match st with
  | [] => [(k, v)]
  | (k', v') :: r => if String.eqb k k' then (k', v) :: r else (k', v') :: aset r k v
  end.

Fixpoint wb_loop (fast_path copies_items : bool) (fn : string -> V -> fret) (items : store) (st : store) : store :=
  match items with
  | [] => st
  | (k, x) :: rest =>
      let r := fn k x in
      (* fn runs on the handed object: an update in place reaches the store only if the handed object IS the stored tensor *)
      let st1 := match r with
                 | FMut v | FMutNone v => if copies_items then st else aset st k v
                 | _ => st
                 end in
      (* the write-back: dest.copy_(item_trsf) *)
      let st2 := match r with
                 | FFresh v => aset st1 k v
                 | FSame => if fast_path then st1 else aset st1 k x
                 | FMut v => if fast_path then st1 else aset st1 k v
                 | FMutNone _ | FNone => st1
                 end in
      wb_loop fast_path copies_items fn rest st2
  end.

(* self.items() is read off the store as it is when the call starts *)
Definition apply_inplace (fast_path copies_items : bool) (fn : string -> V -> fret) (st : store) : store :=
  wb_loop fast_path copies_items fn st st.

End WriteBack.

Arguments FSame {V}.
Arguments FNone {V}.
Arguments FFresh {V} v.
Arguments FMut {V} v.
Arguments FMutNone {V} v.
