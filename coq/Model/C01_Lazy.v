(* C01 — a LazyStackedTensorDict at the root: `LStack stack_dim members`, members = plain TensorDict trees (Model/C01_Tree).
   Definitions only.  The stack's batch size and device are DERIVED (members' batch size with the member count inserted at
   stack_dim; the members' common device), as LazyStackedTensorDict does.  Every call is delegated to the members one after
   the other: when a member raises, the members before it stay written (partial effect kept).

   Sources (tensordict/_lazy.py, working tree): _compute_batch_size 574, device 440, _set_str 581, _set_tuple 616
   (validation against the stack only; values unbound along stack_dim; _set_str hands validated=True to the members,
   _set_tuple lets their nested nodes validate again), del_ 2688 (a KeyError of a member is swallowed as long as one member
   held the key), insert 3143 / append 3185 (device and batch size of the new member compared with the FIRST member),
   batch_size setter = base.py _batch_size_setter (a lazy stack only accepts its own batch size, as a torch.Size);
   _td.py _set_str (validated / inplace branches).
   Not modelled here: the names setter / `names` of a stack (finding D107: members with different names are accepted and
   `names` then raises — coherence below does not speak about the names of the stack), update, index writes, lazy stacks
   nested in a tree. *)
From Coq Require Import List String Bool Arith.
Import ListNotations.
From TD Require Import Model.C01_Tree Model.C01_Ops Model.C01_Scope.
Open Scope string_scope.
Open Scope list_scope.

Inductive lstack := LStack (dim : nat) (members : list tree).

Fixpoint insert_nth {A : Type} (n : nat) (x : A) (l : list A) : list A :=
  match n, l with
  | O, _ => x :: l
  | S n', [] => [x]                       (* list.insert clamps *)
  | S n', y :: r => y :: insert_nth n' x r
  end.
Fixpoint remove_nth {A : Type} (n : nat) (l : list A) : list A :=
  match n, l with
  | _, [] => []
  | O, _ :: r => r
  | S n', y :: r => y :: remove_nth n' r
  end.

Definition mbs (ms : list tree) : list nat := match ms with m :: _ => tshape m | [] => [] end.
Definition mdev (ms : list tree) : option dev := match ms with m :: _ => tdev m | [] => None end.
(* LazyStackedTensorDict.batch_size / .device *)
Definition lbs (L : lstack) : list nat := match L with LStack d ms => insert_nth d (List.length ms) (mbs ms) end.
Definition ldev (L : lstack) : option dev :=
  match L with LStack _ ms => if forallb (fun m => odev_eqb (tdev m) (mdev ms)) ms then mdev ms else None end.

(* coherence of a lazy stack: at least one member, every member a coherent tensordict, one batch size, one device, the
   stack dim inside the derived batch size *)
Definition lcohb (L : lstack) : bool :=
  match L with
  | LStack d ms =>
      negb (Nat.eqb (List.length ms) 0)
      && forallb (fun m => is_td m && coherentb m && shape_eqb (tshape m) (mbs ms) && odev_eqb (tdev m) (mdev ms)) ms
      && Nat.leb d (List.length (mbs ms))
  end.
Definition LCoherent (L : lstack) : Prop := lcohb L = true.

(* `for td in self.tensordicts: <one call on td, may raise>` *)
Definition seq_members (f : tree -> tree * outcome) : list tree -> list tree * outcome :=
  fix go (ms : list tree) : list tree * outcome :=
    match ms with
    | [] => ([], Done)
    | m :: r =>
        let '(m', o) := f m in
        match o with
        | Done => let '(r', o') := go r in (m' :: r', o')
        | _ => (m' :: r, o)
        end
    end.

(* value.unbind(stack_dim): the items differ by their content only *)
Fixpoint unbind_tree (d : nat) (t : tree) : tree :=
  match t with
  | Leaf sh dv => Leaf (remove_nth d sh) dv
  | Node k bs dv nm es =>
      Node k (remove_nth d bs) dv (option_map (remove_nth d) nm) (map (fun kv => (fst kv, unbind_tree d (snd kv))) es)
  end.

Fixpoint has_nt (t : tree) : bool :=
  match t with
  | Leaf _ _ => false
  | Node KNt _ _ _ _ => true
  | Node KTd _ _ _ es => existsb (fun kv => has_nt (snd kv)) es
  end.

(* TensorDict._set_str(key, item, inplace=<bool>, validated=True): stored as it is, or copied into the existing entry *)
Definition set_str_val (k : string) (t : tree) (inplace : bool) (self : tree) : tree * outcome :=
  match self with
  | Node KTd bs dv nm es =>
      if negb inplace then (store self k t, Done)
      else
        match aget k es, t with
        | Some (Leaf dsh dd), Leaf ssh sd => (self, if copy_ok dsh dd ssh sd then Done else Raised)
        | Some (Leaf _ _), Node _ _ _ _ _ => (self, Raised)
        | _, _ => (self, Unmodelled)
        end
  | _ => (self, Unmodelled)
  end.

(* keys() of a lazy stack: the keys every member holds *)
Definition lhas_key (k : string) (ms : list tree) : bool :=
  forallb (fun m => match m with Node _ _ _ _ es => amem k es | Leaf _ _ => false end) ms.

(* _validate_value of the stack for a tensor / an unnamed tensordict (dim names are outside this model) *)
Definition lvalidate (L : lstack) (v : value) : res tree :=
  match L with
  | LStack d ms =>
      match v with
      | VTree t =>
          if has_nt t then Unm
          else if is_node t && (negb (no_names t) || existsb (fun m => negb (no_names m)) ms) then Unm
          else snd (validate_tree (Node KTd (lbs L) (ldev L) None []) t)
      | _ => Unm
      end
  end.

(* set(key, value, inplace) / td[key] = value / set_(key, value) *)
Definition lset (key : list string) (v : value) (ip : inpl) (L : lstack) : lstack * outcome :=
  match L with
  | LStack d ms =>
      match key with
      | [] => (L, Raised)
      | [k] =>
          let has := lhas_key k ms in
          match ip, has with
          | IStrict, false => (L, Raised)
          | _, _ =>
              let inplace := match ip with INo => false | _ => has end in
              match lvalidate L v with
              | Err => (L, Raised)
              | Unm => (L, Unmodelled)
              | Ok t =>
                  let item := unbind_tree d t in
                  let '(ms', o) := seq_members (set_str_val k item inplace) ms in (LStack d ms', o)
              end
          end
      | _ =>
          if existsb (through_nt key) ms then (L, Unmodelled)
          else
            match lvalidate L v with
            | Err => (L, Raised)
            | Unm => (L, Unmodelled)
            | Ok t =>
                let item := unbind_tree d t in
                let '(ms', o) := seq_members (set_tuple key (VTree item) ip) ms in (LStack d ms', o)
            end
      end
  end.

(* the path meets a tensor before its last key: _get_leaf_tensordict fails with an error that is NOT a KeyError *)
Fixpoint through_leaf (p : list string) (t : tree) : bool :=
  match t with
  | Node KTd _ _ _ es =>
      match p with
      | k :: ((_ :: _) as rest) =>
          match aget k es with
          | Some (Leaf _ _) => true
          | Some c => through_leaf rest c
          | None => false
          end
      | _ => false
      end
  | _ => false
  end.

(* del_(key): every member in turn; a member that raises KeyError is skipped, KeyError at the end when no member held the
   key; another error (a path through a tensor) propagates at once — the members before it stay without the key *)
Fixpoint ldel_go (key : list string) (ms : list tree) (deleted : bool) : list tree * outcome :=
  match ms with
  | [] => ([], if deleted then Done else Raised)
  | m :: r =>
      if through_leaf key m then (m :: r, Raised)
      else
        let '(m', o) := del_path key m in
        match o with
        | Unmodelled => (m :: r, Unmodelled)
        | Done => let '(r', o') := ldel_go key r true in (m' :: r', o')
        | Raised => let '(r', o') := ldel_go key r deleted in (m' :: r', o')
        end
  end.

Definition ldel (key : list string) (L : lstack) : lstack * outcome :=
  match L with
  | LStack d ms =>
      if existsb (through_nt key) ms then (L, Unmodelled)
      else let '(ms', o) := ldel_go key ms false in (LStack d ms', o)
  end.

(* insert(i, td) / append(td) *)
Definition linsert (i : nat) (v : value) (L : lstack) : lstack * outcome :=
  match L with
  | LStack d ms =>
      match v with
      | VTree (Node KTd vb vd vn ve) =>
          if negb (odev_eqb (mdev ms) vd) then (L, Raised)
          else if negb (shape_eqb vb (mbs ms)) then (L, Raised)
          else (LStack d (insert_nth i (Node KTd vb vd vn ve) ms), Done)
      | VTree (Leaf _ _) | VStr | VDict _ => (L, Raised)             (* TypeError *)
      | VTree (Node KNt _ _ _ _) => (L, Unmodelled)
      end
  end.

(* stack.batch_size = new *)
Definition lset_bs (sz : bool) (new : list nat) (L : lstack) : lstack * outcome :=
  (L, if sz && shape_eqb new (lbs L) then Done else Raised).

Inductive lop :=
| LSet (key : list string) (v : value) (inplace : bool)
| LSet_ (key : list string) (v : value)
| LDel (key : list string)
| LInsert (i : nat) (v : value)
| LAppend (v : value)
| LBatchSize (as_size : bool) (bs : list nat).

Definition lstep (L : lstack) (o : lop) : lstack * outcome :=
  match L with
  | LStack d ms =>
      match ms with
      | [] => (L, Unmodelled)
      | _ =>
          match o with
          | LSet key v ip => lset key v (if ip then IBest else INo) L
          | LSet_ key v => lset key v IStrict L
          | LDel key => ldel key L
          | LInsert i v => linsert i v L
          | LAppend v => linsert (List.length ms) v L
          | LBatchSize sz new => lset_bs sz new L
          end
      end
  end.

Definition lrun (L : lstack) (ops : list lop) : lstack := fold_left (fun L o => fst (lstep L o)) ops L.

Definition lop_value_ok (o : lop) : bool :=
  match o with
  | LSet _ v _ | LSet_ _ v | LInsert _ v | LAppend v => value_okb v
  | _ => true
  end.
