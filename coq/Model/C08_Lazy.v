(* Model of tensordict/_lazy.py::LazyStackedTensorDict (and _torch_func.py::_lazy_cat/_stack for lazy operands):
   a transcription of the ALGORITHMS -- branch by branch, with their quirks -- as functions that build array
   expressions ([Spec.C08_Dense.arr]): what the code returns is described by the expression it assembles out of its
   members (member[idx], member.transpose(..), lazy_stack(.., dim), torch.cat(.., dim) ...).
   Definitions only.  Error branches are explicit: [Raised] (the code raises), [OutOfModel] (input outside the
   modelled grammar: more than one advanced index), [OutOfFuel]. *)
From Coq Require Import ZArith List Bool Lia.
Import ListNotations.
From TD Require Import Spec.PySlice Spec.C08_Dense.
Open Scope Z_scope.

Inductive res (A : Type) := Ok (a : A) | Raised | OutOfModel | OutOfFuel.
Arguments Ok {A} a. Arguments Raised {A}. Arguments OutOfModel {A}. Arguments OutOfFuel {A}.
Definition rbind {A B} (r : res A) (f : A -> res B) : res B :=
  match r with Ok a => f a | Raised => Raised | OutOfModel => OutOfModel | OutOfFuel => OutOfFuel end.
Definition of_opt {A} (o : option A) : res A := match o with Some a => Ok a | None => Raised end.
Fixpoint rmap {A B} (f : A -> res B) (l : list A) : res (list B) :=
  match l with
  | [] => Ok []
  | x :: r => rbind (f x) (fun y => rbind (rmap f r) (fun ys => Ok (y :: ys)))
  end.

(* fixed_Dnn switches: [false] = the code before the fix: commits C08-D13 / C08-D23 / C08-D26 (the defect is in the model);
   [true] = the repaired code (the state of /repo now) *)
Definition fixed_D23 : bool := true.   (* tensor index on the stack dim replaces member objects *)
Definition fixed_D26 : bool := true.   (* transpose across the stack dim: single member transpose instead of a rotation *)
Definition fixed_D13 : bool := true.   (* _lazy_cat(out=): running offset doubles; writes go to a dense copy *)
Definition fixed_D36 : bool := true.  (* _split_index: split_dim of a mask on / across the stack dim ignores the Nones before it
                                          (repair fixes/C08/C08-D36.diff: "+ num_none"; flip to true when it lands in /repo) *)
(* the dim of the VALUE along which __setitem__ splits it for the rows of a mask: pos = the dim of self the mask starts on *)
Definition split_dim_of (fixed : bool) (pos num_single num_none : Z) : Z :=
  pos - num_single + (if fixed then num_none else 0).

(* LazyStackedTensorDict._compute_batch_size  (_lazy.py:563): s = list(batch_size); s.insert(stack_dim, num_tds) *)
Definition compute_batch_size (bs : list Z) (stack_dim : nat) (num_tds : Z) : list Z := insert_at stack_dim num_tds bs.

(* ------------------------------------------------------------------------------------------------------------
   utils.convert_ellipsis_to_idx (utils.py:211) on a tuple index *)
Definition is_none (it : item) : bool := match it with INone => true | _ => false end.
Fixpoint find_ell (idx : list item) (k : nat) : option nat :=
  match idx with [] => None | it :: r => if is_ell it then Some k else find_ell r (S k) end.

(* a boolean mask with n dims indexes n dims at once (num_extra_dims) *)
Definition extra_dims (idx : list item) : nat :=
  fold_right (fun it acc => match it with IMask sh _ => ((List.length sh - 1) + acc)%nat | _ => acc end) 0%nat idx.

Definition convert_ellipsis (idx : list item) (rank : nat) : res (list item) :=
  let n_ell := List.length (filter is_ell idx) in
  if Nat.eqb n_ell 0 then Ok idx else
  let n_none := List.length (filter is_none idx) in
  let extra := extra_dims idx in
  if (rank <? List.length idx + extra - n_ell - n_none)%nat then Raised else
  if (1 <? n_ell)%nat then Raised else
  match find_ell idx 0 with
  | None => Ok idx
  | Some start =>
      let after := (List.length idx - start - 1)%nat in
      let num_dims := (rank + n_none)%nat in
      let ell_len := (num_dims - after - start - extra)%nat in          (* (slice(None),) * negative = () *)
      let new := firstn start idx ++ repeat (ISl None None None) ell_len ++ skipn (S start) idx in
      if Nat.eqb (List.length new + extra) num_dims then Ok new else Raised
  end.

(* ------------------------------------------------------------------------------------------------------------
   _split_index (_lazy.py:654-838) *)
Inductive osub := OI (it : item) | OT (masks : list item).   (* an index item / a tuple of per-row masks *)
Inductive sel :=
  | SAll (n : nat)                         (* torch.arange(len(tensordicts)): the stack dim was not reached *)
  | SRange (js : list Z)                   (* range(n)[slice] or [range(n)[int]] *)
  | STen (sh : list Z) (vals : list Z).    (* the integer tensor found on the stack dim *)

Record sstate := {
  st_out : list osub; st_sel : sel; st_num_single : Z; st_num_none : Z; st_num_squash : Z;
  st_isint : bool; st_has_bool : bool; st_nd : bool; st_enc : bool; st_cursor : nat;
  st_split_dim : Z; st_mask_loc : nat; st_masks : list item }.

(* tensor.unbind(0) of a boolean mask *)
Fixpoint chunks {A} (fuel : nat) (k : nat) (l : list A) : list (list A) :=
  match fuel with
  | O => []
  | S f => firstn k l :: chunks f k (skipn k l)
  end.
Definition mask_unbind (sh : list Z) (bits : list bool) : res (list item) :=
  match sh with
  | [] => Raised                                      (* unbind of a 0-dim tensor *)
  | s :: sh' => Ok (map (fun c => IMask sh' c) (chunks (Z.to_nat s) (Z.to_nat (prodZ sh')) bits))
  end.

(* range(n)[slice] as the list of its elements *)
Definition range_elems (t : Z * Z * Z) : list Z := map (fun k => range_nth t (Z.of_nat k)) (seq 0 (Z.to_nat (range_len t))).

Definition zb (b : bool) : Z := if b then 1 else 0.

(* utils._is_number: a Python number OR a 0-dim tensor.  A 0-dim False mask therefore takes the "number" branches
   (kept faithfully although nothing in the library produces one; 0-dim True masks are caught before, like None). *)
Definition as_number (it : item) : option Z :=
  match it with
  | IInt i => Some i
  | IMask [] [false] => Some 0          (* a 0-dim True mask is handled like None (fix C08-D30) *)
  | _ => None
  end.

Definition split_step (sd : nat) (n : nat) (shape : list Z) (i : nat) (it : item) (s : sstate) : res sstate :=
  match as_number it with
  | Some j =>
      if Nat.eqb (st_cursor s) sd then
        match norm_i j (Z.of_nat n) with                (* range(n)[j] *)
        | Some j' => Ok {| st_out := st_out s; st_sel := SRange [j']; st_num_single := st_num_single s;
                           st_num_none := st_num_none s; st_num_squash := st_num_squash s; st_isint := true;
                           st_has_bool := st_has_bool s; st_nd := st_nd s; st_enc := st_enc s; st_cursor := S (st_cursor s);
                           st_split_dim := st_split_dim s; st_mask_loc := st_mask_loc s; st_masks := st_masks s |}
        | None => Raised
        end
      else
        Ok {| st_out := st_out s ++ [OI it]; st_sel := st_sel s;
              st_num_single := st_num_single s + zb (st_cursor s <? sd)%nat;
              st_num_none := st_num_none s; st_num_squash := st_num_squash s;
              st_isint := st_isint s; st_has_bool := st_has_bool s; st_nd := st_nd s; st_enc := st_enc s;
              st_cursor := S (st_cursor s); st_split_dim := st_split_dim s; st_mask_loc := st_mask_loc s; st_masks := st_masks s |}
  | None =>
  match it with
  | INone =>
      Ok {| st_out := st_out s ++ [OI INone]; st_sel := st_sel s; st_num_single := st_num_single s;
            st_num_none := st_num_none s + zb (st_cursor s <=? sd)%nat; st_num_squash := st_num_squash s;
            st_isint := st_isint s; st_has_bool := st_has_bool s; st_nd := st_nd s; st_enc := st_enc s;
            st_cursor := st_cursor s; st_split_dim := st_split_dim s; st_mask_loc := st_mask_loc s; st_masks := st_masks s |}
  | IMask [] [true] =>                                   (* `idx is None or idx is True or <0-dim True mask>`: out.append(None) *)
      Ok {| st_out := st_out s ++ [OI INone]; st_sel := st_sel s; st_num_single := st_num_single s;
            st_num_none := st_num_none s + zb (st_cursor s <=? sd)%nat; st_num_squash := st_num_squash s;
            st_isint := st_isint s; st_has_bool := st_has_bool s; st_nd := st_nd s; st_enc := st_enc s;
            st_cursor := st_cursor s; st_split_dim := st_split_dim s; st_mask_loc := st_mask_loc s; st_masks := st_masks s |}
  | IEll => Raised                                       (* TypeError: Invalid index type *)
  | _ =>
    if Nat.eqb (st_cursor s) sd then
      match it with
      | IInt j =>
          match norm_i j (Z.of_nat n) with                (* range(n)[j] *)
          | Some j' => Ok {| st_out := st_out s; st_sel := SRange [j']; st_num_single := st_num_single s;
                             st_num_none := st_num_none s; st_num_squash := st_num_squash s; st_isint := true;
                             st_has_bool := st_has_bool s; st_nd := st_nd s; st_enc := st_enc s; st_cursor := S (st_cursor s);
                             st_split_dim := st_split_dim s; st_mask_loc := st_mask_loc s; st_masks := st_masks s |}
          | None => Raised
          end
      | ISl a b c =>
          if step_of c =? 0 then Raised else
          Ok {| st_out := st_out s; st_sel := SRange (range_elems (py_indices a b (step_of c) (Z.of_nat n)));
                st_num_single := st_num_single s; st_num_none := st_num_none s; st_num_squash := st_num_squash s;
                st_isint := st_isint s; st_has_bool := st_has_bool s; st_nd := st_nd s; st_enc := st_enc s;
                st_cursor := S (st_cursor s); st_split_dim := st_split_dim s; st_mask_loc := st_mask_loc s; st_masks := st_masks s |}
      | IMask msh bits =>
          rbind (mask_unbind msh bits) (fun ms =>
          Ok {| st_out := st_out s ++ [OT ms]; st_sel := SRange (map Z.of_nat (seq 0 n));
                st_num_single := st_num_single s; st_num_none := st_num_none s; st_num_squash := st_num_squash s;
                st_isint := st_isint s; st_has_bool := true; st_nd := st_nd s; st_enc := st_enc s;
                st_cursor := S (st_cursor s);                                (* cursor_incr stays 1 here *)
                st_split_dim := split_dim_of fixed_D36 (Z.of_nat sd) (st_num_single s) (st_num_none s);
                st_mask_loc := i; st_masks := ms |})
      | ITen tsh vals =>
          Ok {| st_out := st_out s; st_sel := STen tsh vals;
                st_num_single := if st_enc s then st_num_single s + 1 else st_num_single s;
                st_num_none := st_num_none s; st_num_squash := st_num_squash s;
                st_isint := st_isint s; st_has_bool := st_has_bool s; st_nd := true; st_enc := true;
                st_cursor := S (st_cursor s); st_split_dim := st_split_dim s; st_mask_loc := st_mask_loc s; st_masks := st_masks s |}
      | _ => Raised
      end
    else
      match it with
      | IInt _ =>
          Ok {| st_out := st_out s ++ [OI it]; st_sel := st_sel s;
                st_num_single := st_num_single s + zb (st_cursor s <? sd)%nat;
                st_num_none := st_num_none s; st_num_squash := st_num_squash s;
                st_isint := st_isint s; st_has_bool := st_has_bool s; st_nd := st_nd s; st_enc := st_enc s;
                st_cursor := S (st_cursor s); st_split_dim := st_split_dim s; st_mask_loc := st_mask_loc s; st_masks := st_masks s |}
      | ISl _ _ _ =>
          Ok {| st_out := st_out s ++ [OI it]; st_sel := st_sel s; st_num_single := st_num_single s;
                st_num_none := st_num_none s; st_num_squash := st_num_squash s;
                st_isint := st_isint s; st_has_bool := st_has_bool s; st_nd := st_nd s; st_enc := st_enc s;
                st_cursor := S (st_cursor s); st_split_dim := st_split_dim s; st_mask_loc := st_mask_loc s; st_masks := st_masks s |}
      | IMask msh bits =>
          let nd := List.length msh in
          let cur := st_cursor s in
          let squash := if (cur <? sd)%nat then st_num_squash s + (Z.of_nat nd - 1) else st_num_squash s in
          if ((cur <? sd) && (sd <? cur + nd))%nat then
            (* the mask spans the stack dim *)
            rbind (mask_unbind msh bits) (fun ms =>
            match nth_error shape cur with                (* range(self.shape[cursor]) (fix C08-D29; was shape[i]) *)
            | Some si =>
                Ok {| st_out := st_out s ++ [OT ms]; st_sel := SRange (map Z.of_nat (seq 0 (Z.to_nat si)));
                      st_num_single := st_num_single s; st_num_none := st_num_none s; st_num_squash := squash;
                      st_isint := st_isint s; st_has_bool := true; st_nd := st_nd s; st_enc := st_enc s;
                      st_cursor := (cur + nd)%nat;
                      st_split_dim := split_dim_of fixed_D36 (Z.of_nat cur) (st_num_single s) (st_num_none s);
                      st_mask_loc := i; st_masks := ms |}
            | None => Raised
            end)
          else
            Ok {| st_out := st_out s ++ [OI it]; st_sel := st_sel s; st_num_single := st_num_single s;
                  st_num_none := st_num_none s; st_num_squash := squash;
                  st_isint := st_isint s; st_has_bool := st_has_bool s; st_nd := st_nd s; st_enc := st_enc s;
                  st_cursor := (cur + nd)%nat; st_split_dim := st_split_dim s; st_mask_loc := st_mask_loc s; st_masks := st_masks s |}
      | ITen tsh _ =>
          let before := (st_cursor s <? sd)%nat in
          Ok {| st_out := st_out s ++ [OI it]; st_sel := st_sel s;
                st_num_single := if before then (if st_enc s then st_num_single s + 1
                                                 else st_num_single s - (lenZ tsh - 1)) else st_num_single s;
                st_num_none := st_num_none s; st_num_squash := st_num_squash s;
                st_isint := st_isint s; st_has_bool := st_has_bool s; st_nd := st_nd s;
                st_enc := if before then true else st_enc s;
                st_cursor := S (st_cursor s); st_split_dim := st_split_dim s; st_mask_loc := st_mask_loc s; st_masks := st_masks s |}
      | _ => Raised
      end
  end
  end.

Fixpoint split_loop (sd n : nat) (shape : list Z) (i : nat) (idx : list item) (s : sstate) : res sstate :=
  match idx with
  | [] => Ok s
  | it :: rest => rbind (split_step sd n shape i it s) (split_loop sd n shape (S i) rest)
  end.

(* the dim of self the cursor stands on when it reaches position k of the (ellipsis-free) index: "mask_dim" *)
Definition cursor_incr (it : item) : nat := match as_number it with Some _ => 1%nat | None => consumes it end.
Definition cursor_at (idx : list item) (k : nat) : nat := fold_right (fun it acc => (cursor_incr it + acc)%nat) 0%nat (firstn k idx).

Definition is_adv (it : item) : bool := match it with ITen _ _ | IMask _ _ => true | _ => false end.

Inductive nest := NLeaf (j : Z) | NList (l : list nest).
(* tensor.tolist() of an integer tensor (ndim >= 1) as a nested list *)
Fixpoint to_nest (sh : list Z) (vals : list Z) : nest :=
  match sh with
  | s :: ((_ :: _) as rest) => NList (map (to_nest rest) (chunks (Z.to_nat s) (Z.to_nat (prodZ rest)) vals))
  | _ => NList (map NLeaf vals)
  end.

Inductive split_kind :=
  | KDict (entries : list (Z * list item))       (* index_dict {i: sub-index} in iteration order *)
  | KNest (t : nest) (sub : list item).          (* nested list of (member, sub-index) for a tensor on the stack dim *)

Record split := {
  sp_kind : split_kind; sp_num_single : Z; sp_num_none : Z; sp_num_squash : Z; sp_isint : bool; sp_has_bool : bool;
  sp_nd : bool; sp_split_dim : Z; sp_mask_loc : nat; sp_masks : list item }.

Definition osub_item (o : osub) : res item := match o with OI it => Ok it | OT _ => OutOfModel end.
(* out[i] for the boolean branch: tuple entries are dispatched, the others are shared *)
Definition osub_pick (i : Z) (o : osub) : res item :=
  match o with OI it => Ok it | OT ms => of_opt (nthZ ms i) end.

Definition split_index (sd n : nat) (shape : list Z) (index : list item) : res split :=
  rbind (convert_ellipsis index (List.length shape)) (fun idx =>
  if (1 <? List.length (filter is_adv idx))%nat then OutOfModel else
  let s0 := {| st_out := []; st_sel := SAll n; st_num_single := 0; st_num_none := 0; st_num_squash := 0;
               st_isint := false; st_has_bool := false; st_nd := false; st_enc := false; st_cursor := 0%nat;
               st_split_dim := 0; st_mask_loc := 0%nat; st_masks := [] |} in
  rbind (split_loop sd n shape 0 idx s0) (fun s =>
  let mk k := {| sp_kind := k; sp_num_single := st_num_single s; sp_num_none := st_num_none s;
                 sp_num_squash := st_num_squash s; sp_isint := st_isint s; sp_has_bool := st_has_bool s;
                 sp_nd := st_nd s; sp_split_dim := st_split_dim s; sp_mask_loc := st_mask_loc s; sp_masks := st_masks s |} in
  let js := match st_sel s with SAll m => map Z.of_nat (seq 0 m) | SRange l => l | STen _ vals => vals end in
  if st_has_bool s then
    rbind (rmap (fun i => rbind (rmap (osub_pick i) (st_out s)) (fun sub => Ok (i, sub))) js) (fun es => Ok (mk (KDict es)))
  else
    rbind (rmap osub_item (st_out s)) (fun sub =>
    match st_sel s with
    | STen tsh vals => if (lenZ vals =? prodZ tsh) then Ok (mk (KNest (to_nest tsh vals) sub)) else Raised
    | _ => Ok (mk (KDict (map (fun j => (j, sub)) js)))
    end))).

(* utils._getitem_batch_size on the RAW index (at most one advanced index): an un-converted Ellipsis consumes one
   dim and contributes nothing (quirk, visible only in the empty-mask branch of __getitem__) *)
Fixpoint gbs_raw (idx : list item) (shape : list Z) : res (list Z) :=
  match idx with
  | [] => Ok shape
  | INone :: r => rbind (gbs_raw r shape) (fun t => Ok (1 :: t))
  | IInt _ :: r | IEll :: r => gbs_raw r (tl shape)
  | ISl a b c :: r =>
      match shape with
      | s :: sh => if step_of c =? 0 then Raised
                   else rbind (gbs_raw r sh) (fun t => Ok (range_len (py_indices a b (step_of c) s) :: t))
      | [] => Raised
      end
  | ITen tsh _ :: r => rbind (gbs_raw r (tl shape)) (fun t => Ok (tsh ++ t))
  | IMask msh bits :: r => rbind (gbs_raw r (skipn (List.length msh) shape)) (fun t => Ok (lenZ (true_pos bits) :: t))
  end.

(* ------------------------------------------------------------------------------------------------------------
   __getitem__ (_lazy.py:2304-2401) *)
Definition is_stack (a : arr) : bool := match a with Stack _ _ _ => true | _ => false end.
Definition nonneg_nat (z : Z) : res nat := if z <? 0 then OutOfModel else Ok (Z.to_nat z).
Definition is_empty_idx (idx : list item) : bool := match idx with [] => true | _ => false end.

(* self.tensordicts[i] with a Python int (negative allowed) *)
Definition member (parts : list arr) (i : Z) : res arr :=
  match norm_i i (lenZ parts) with Some i' => of_opt (nthZ parts i') | None => Raised end.

Definition mask_any (it : item) : bool := match it with IMask _ bits => existsb (fun b => b) bits | _ => false end.
Definition mask_all (it : item) : bool := match it with IMask _ bits => forallb (fun b => b) bits | _ => false end.
Definition is_mask0 (it : item) : bool := match it with IMask [] _ => true | _ => false end.
Definition mask_rank0 (ms : list item) : bool := match ms with IMask [] _ :: _ => true | _ => false end.

(* torch.cat of tensordicts: _lazy_cat (out=None) when a lazy stack is among the operands, _cat otherwise *)
Definition stack_parts (a : arr) : option (nat * list Z * list arr) :=
  match a with Stack sd bs0 parts => Some (sd, bs0, parts) | _ => None end.
Fixpoint transpose_lists {A} (fuel : nat) (ls : list (list A)) : list (list A) :=
  match fuel with
  | O => []
  | S f => concat (map (fun l => match l with x :: _ => [x] | [] => [] end) ls) :: transpose_lists f (map (@tl A) ls)
  end.

Definition m_cat (parts : list arr) (dim : nat) : res arr :=
  if existsb is_stack parts then
    match all_some (map stack_parts parts) with
    | None => Raised                                            (* a dense operand has no .stack_dim *)
    | Some (((sd, bs0, ps0) :: _) as sps) =>
        if forallb (fun t => Nat.eqb (fst (fst t)) sd) sps then
          match opt_bind (shape_of (Stack sd bs0 ps0)) (fun sh => nth_error sh dim) with
          | None => Raised                                      (* dim >= len(batch_size) *)
          | Some _ =>
            if Nat.eqb dim sd then
              match concat (map (fun t => snd t) sps) with
              | [] => (* LazyStackedTensorDict(stack_dim=sd) without members and without batch_size: batch [] *)
                      if Nat.eqb sd 0 then Ok (Stack 0 [] []) else Raised
              | ps => Ok (Stack sd bs0 ps)
              end
            else let new_dim := if (sd <? dim)%nat then (dim - 1)%nat else dim in
                 Ok (Stack sd bs0 (map (fun row => Cat new_dim row) (transpose_lists (List.length ps0) (map (fun t => snd t) sps))))
          end
        else Raised
    | Some [] => Raised
    end
  else match parts with [] => Raised | _ => Ok (Cat dim parts) end.

Section GetItem.
  Variable lz_getitem : arr -> list item -> res arr.   (* recursive occurrence (one unit of fuel less) *)

  (* member[idx]: a nested lazy stack recurses, a plain TensorDict is indexed by torch's rules *)
  (* TensorDict._index_tensordict._check_for_invalid_index (_td.py:1573): a tensordict without batch dims accepts
     only None / a 0-dim boolean / a 1-tuple of those / a tuple of Nones *)
  Definition rank0_index_ok (idx : list item) : bool :=
    match idx with
    | [INone] | [IMask [] _] => true
    | _ => forallb is_none idx
    end.
  (* TensorDictBase.__getitem__ (base.py:571-586): `if all(isinstance(idx, slice) and idx == slice(None) for idx in index):
     return self` -- whatever the number of slices *)
  Definition is_full_slice (it : item) : bool := match it with ISl None None None => true | _ => false end.
  Definition m_getitem (m : arr) (idx : list item) : res arr :=
    if is_stack m then lz_getitem m idx
    else if forallb is_full_slice idx then Ok m
    else match shape_of m with
         | Some [] => if rank0_index_ok idx then Ok (Index idx m) else Raised
         | _ => Ok (Index idx m)
         end.
  Definition m_get_or_self (m : arr) (idx : list item) : res arr :=
    if is_empty_idx idx then Ok m else m_getitem m idx.

  Fixpoint recompose (parts : list arr) (sd : nat) (bs0 : list Z) (sub : list item) (t : nest) : res arr :=
    match t with
    | NLeaf j => Raised                       (* a bare int at top level cannot happen: tolist() of a >=1-dim tensor *)
    | NList l =>
        rbind ((fix go (l : list nest) : res (list arr) :=
                  match l with
                  | [] => Ok []
                  | NLeaf j :: r => rbind (member parts j) (fun m => rbind (m_get_or_self m sub) (fun x =>
                                    rbind (go r) (fun xs => Ok (x :: xs))))
                  | (NList _ as t') :: r => rbind (recompose parts sd bs0 sub t') (fun x =>
                                            rbind (go r) (fun xs => Ok (x :: xs)))
                  end) l)
              (fun xs => match xs with [] => Raised | _ => Ok (Stack sd bs0 xs) end)
    end.

  Definition getitem_body (self : arr) (sd : nat) (bs0 : list Z) (parts : list arr) (shape : list Z)
                          (index : list item) : res arr :=
    let n := List.length parts in
    rbind (split_index sd n shape index) (fun sp =>
    if sp_has_bool sp then
      rbind (nonneg_nat (Z.of_nat (sp_mask_loc sp) - sp_num_single sp)) (fun cat_dim =>
      match sp_kind sp with
      | KNest _ _ => Raised
      | KDict es =>
        if mask_rank0 (sp_masks sp) then
          (* zip_strict(converted_idx.items(), mask_unbind) *)
          if negb (Nat.eqb (List.length es) (List.length (sp_masks sp))) then Raised else
          rbind (rmap (fun em =>
                   let '((i, sub), mk) := em in
                   if mask_any mk then
                     rbind (member parts i) (fun m =>
                       match shape_of m with
                       | Some [] => if mask_all mk
                                    then (* no batch dims: apply the rest of the index (fix C08-D28; was: the member itself) *)
                                         rbind (m_getitem m (filter (fun it => negb (is_mask0 it)) sub)) (fun x => Ok [x])
                                    else rbind (m_getitem m sub) (fun x => Ok [Squeeze cat_dim x])
                       | _ => rbind (m_getitem m sub) (fun x => Ok [Squeeze cat_dim x])
                       end)
                   else Ok []) (combine es (sp_masks sp)))
                (fun xs => let res := concat xs in
                           match res with
                           | [] => (* fix C08-D31: batch_size of the absent members = indexed batch size without the stack dim *)
                                   rbind (convert_ellipsis index (List.length shape)) (fun idx' =>
                                   rbind (gbs_raw idx' shape) (fun gbs =>
                                   if (cat_dim <? List.length gbs)%nat then Ok (Stack cat_dim (remove_at cat_dim gbs) []) else Raised))
                           | x :: _ => Ok (Stack cat_dim [] res)
                           end)
        else
          rbind (convert_ellipsis index (List.length shape)) (fun idx' =>
          let mask_dim := cursor_at idx' (sp_mask_loc sp) in          (* fix C08-D29 (was: mask_loc itself) *)
          rbind (rmap (fun e => let '(i, sub) := e in
                                rbind (lz_getitem self (repeat (ISl None None None) mask_dim ++ [IInt i])) (fun x =>
                                m_getitem x sub)) es)
                (fun xs => m_cat xs cat_dim))
      end)
    else if sp_nd sp then
      rbind (nonneg_nat (Z.of_nat sd - sp_num_single sp + sp_num_none sp)) (fun nsd =>
      match sp_kind sp with
      | KNest t sub => recompose parts nsd bs0 sub t
      | KDict _ => Raised
      end)
    else
      match sp_kind sp with
      | KNest _ _ => Raised
      | KDict es =>
        if sp_isint sp then
          match es with
          | (i, sub) :: _ => rbind (member parts i) (fun m => m_get_or_self m sub)
          | [] => Raised
          end
        else
          rbind (nonneg_nat (Z.of_nat sd - sp_num_single sp + sp_num_none sp - sp_num_squash sp)) (fun nsd =>
          rbind (rmap (fun e => let '(i, sub) := e in rbind (member parts i) (fun m => m_get_or_self m sub)) es) (fun xs =>
          match xs with [] => Raised | _ => Ok (Stack nsd bs0 xs) end))
      end).
End GetItem.

Fixpoint lz_getitem (fuel : nat) (self : arr) (index : list item) : res arr :=
  match fuel with
  | O => OutOfFuel
  | S f =>
      match self with
      | Stack sd bs0 parts =>
          match shape_of self with
          | Some shape => getitem_body (lz_getitem f) self sd bs0 parts shape index
          | None => Raised
          end
      | _ => Ok (Index index self)
      end
  end.

(* ------------------------------------------------------------------------------------------------------------
   shape operations (_lazy.py:1016-1030, 3302-3504): new stack dim + what is asked of every member *)
  (* _transpose(dim0, dim1) with dim0 < dim1 *)
  Definition lz_transpose_plan (sd d0 d1 : nat) : nat * option (nat * nat) :=
    if Nat.eqb d0 sd then
      if Nat.eqb d1 (S d0) then (d1, None)
      else (d1, Some (d0, (d1 - 1)%nat))
    else if Nat.eqb d1 sd then
      if Nat.eqb (S d0) d1 then (d0, None)
      else (d0, Some (S d0, d1))
    else (sd, Some (if (d0 <? sd)%nat then d0 else (d0 - 1)%nat, if (d1 <? sd)%nat then d1 else (d1 - 1)%nat)).

Definition norm_dim (d : Z) (rank : nat) : res nat :=
  let d' := if d <? 0 then d + Z.of_nat rank else d in
  if (d' <? 0) || (Z.of_nat rank <=? d') then Raised else Ok (Z.to_nat d').

(* rotation the dense transpose needs on the members when the stack dim is one of the two dims (the D26 fix) *)
Definition rot_perm (rank lo hi : nat) (left : bool) : list nat :=
  (* the list handed to member.permute: identity outside [lo, hi]; inside, [lo+1 .. hi, lo] (left) or [hi, lo .. hi-1] *)
  map (fun k => if ((k <? lo) || (hi <? k))%nat then k
                else if left then (if Nat.eqb k hi then lo else S k)
                else (if Nat.eqb k lo then hi else (k - 1)%nat)) (seq 0 rank).

Fixpoint lz_transpose (fuel : nat) (a : arr) (dim0 dim1 : Z) : res arr :=
  match fuel with
  | O => OutOfFuel
  | S f =>
    match a with
    | Stack sd bs0 parts =>
        match shape_of a with
        | None => Raised
        | Some shape =>
          let rank := List.length shape in
          rbind (match norm_dim dim0 rank, norm_dim dim1 rank with Ok x, Ok y => Ok (x, y) | _, _ => Raised end) (fun dd =>
          let d0 := Nat.min (fst dd) (snd dd) in
          let d1 := Nat.max (fst dd) (snd dd) in
          if Nat.eqb d0 d1 then Ok a else
          if fixed_D26 && (Nat.eqb d0 sd || Nat.eqb d1 sd) && negb (Nat.eqb (S d0) d1) then
            (* _transpose after fix C08-D26: dim0 = stack dim: perm = [.., dim1-1, dim0 .. dim1-2, ..];
                                           dim1 = stack dim: perm = [.., dim0+1 .. dim1-1, dim0, ..] *)
            let p := if Nat.eqb d0 sd then rot_perm (rank - 1) d0 (d1 - 1) false else rot_perm (rank - 1) d0 (d1 - 1) true in
            rbind (rmap (fun m => Ok (Perm p m)) parts) (fun ms => Ok (Stack (if Nat.eqb d0 sd then d1 else d0) bs0 ms))
          else
          let '(nsd, mop) := lz_transpose_plan sd d0 d1 in
          match mop with
          | None => Ok (Stack nsd bs0 parts)
          | Some (a0, a1) =>
              rbind (rmap (fun m => if is_stack m then lz_transpose f m (Z.of_nat a0) (Z.of_nat a1)
                                    else match shape_of m with
                                         | Some msh => if ((a0 <? List.length msh) && (a1 <? List.length msh))%nat
                                                       then (if Nat.eqb a0 a1 then Ok m else Ok (Transp a0 a1 m)) else Raised
                                         | None => Raised
                                         end) parts)
                    (fun ms => Ok (Stack nsd bs0 ms))
          end)
        end
    | _ => Ok a
    end
  end.

(* _permute: dims_list_sort = argsort(dims); stack_dim = dims_list_sort[self.stack_dim];
   members: [d if d < sd else d-1 for d in dims if d != sd] *)
Fixpoint lz_permute (fuel : nat) (a : arr) (dims : list Z) : res arr :=
  match fuel with
  | O => OutOfFuel
  | S f =>
    match a with
    | Stack sd bs0 parts =>
        match shape_of a with
        | None => Raised
        | Some shape =>
          let rank := List.length shape in
          let ds := map (fun d => if d <? 0 then d + Z.of_nat rank else d) dims in
          if negb (Nat.eqb (List.length ds) rank) || negb (forallb (fun d => in_dim d (Z.of_nat rank)) ds) then Raised else
          let dn := map Z.to_nat ds in
          if negb (is_perm dn) then Raised else
          match index_of sd dn 0 with
          | None => Raised
          | Some nsd =>
              let mdims := map (fun d => if (d <? sd)%nat then d else (d - 1)%nat) (filter (fun d => negb (Nat.eqb d sd)) dn) in
              rbind (rmap (fun m => if is_stack m then lz_permute f m (map Z.of_nat mdims) else Ok (Perm mdims m)) parts)
                    (fun ms => Ok (Stack nsd bs0 ms))
          end
        end
    | _ => Ok a
    end
  end.

(* _squeeze(dim) with an explicit dim; squeeze() = squeeze every size-1 dim from the last to the first *)
Fixpoint lz_squeeze (fuel : nat) (a : arr) (dim : Z) : res arr :=
  match fuel with
  | O => OutOfFuel
  | S f =>
    match a with
    | Stack sd bs0 parts =>
        match shape_of a with
        | None => Raised
        | Some shape =>
          let rank := List.length shape in
          let d' := if dim <? 0 then dim + Z.of_nat rank else dim in
          if (Z.of_nat rank - 1 <? d') || (d' <? 0) then Raised else
          let d := Z.to_nat d' in
          match nth_error shape d with
          | Some s =>
              if negb (s =? 1) then Ok a
              else if Nat.eqb d sd then of_opt (nth_error parts 0)
              else let md := if (sd <? d)%nat then (d - 1)%nat else d in
                   let nsd := if (sd <? d)%nat then sd else (sd - 1)%nat in
                   rbind (rmap (fun m => if is_stack m then lz_squeeze f m (Z.of_nat md) else Ok (Squeeze md m)) parts)
                         (fun ms => Ok (Stack nsd bs0 ms))
          | None => Raised
          end
        end
    | _ => Ok (Squeeze (Z.to_nat dim) a)
    end
  end.

Fixpoint lz_squeeze_all (fuel : nat) (a : arr) (dims : list nat) : res arr :=
  match dims with
  | [] => Ok a
  | d :: r =>
      match shape_of a with
      | Some sh => match nth_error sh d with
                   | Some s => if s =? 1
                               then rbind (if is_stack a then lz_squeeze fuel a (Z.of_nat d) else Ok (Squeeze d a)) (fun a' => lz_squeeze_all fuel a' r)
                               else lz_squeeze_all fuel a r
                   | None => Raised
                   end
      | None => Raised
      end
  end.

Fixpoint lz_unsqueeze (fuel : nat) (a : arr) (dim : Z) : res arr :=
  match fuel with
  | O => OutOfFuel
  | S f =>
    match a with
    | Stack sd bs0 parts =>
        match shape_of a with
        | None => Raised
        | Some shape =>
          let rank := List.length shape in
          let d' := if dim <? 0 then dim + Z.of_nat rank + 1 else dim in
          if (Z.of_nat rank <? d') || (d' <? 0) then Raised else
          let d := Z.to_nat d' in
          let md := if (sd <? d)%nat then (d - 1)%nat else d in
          let nsd := if (sd <? d)%nat then sd else S sd in
          rbind (rmap (fun m => if is_stack m then lz_unsqueeze f m (Z.of_nat md) else Ok (Unsq md m)) parts)
                (fun ms => Ok (Stack nsd bs0 ms))
        end
    | _ => Ok (Unsq (Z.to_nat dim) a)
    end
  end.

(* _unbind(dim) *)
Definition select_idx (d : nat) (k : Z) : list item := repeat (ISl None None None) d ++ [IInt k].
Fixpoint lz_unbind (fuel : nat) (a : arr) (dim : Z) : res (list arr) :=
  match fuel with
  | O => OutOfFuel
  | S f =>
    match shape_of a with
    | None => Raised
    | Some shape =>
      rbind (norm_dim dim (List.length shape)) (fun d =>
      match a with
      | Stack sd bs0 parts =>
          if Nat.eqb d sd then Ok parts
          else let nd := if (d <? sd)%nat then d else (d - 1)%nat in
               let nsd := if (sd <? d)%nat then sd else (sd - 1)%nat in
               rbind (rmap (fun m => lz_unbind f m (Z.of_nat nd)) parts) (fun cols =>
               match nth_error shape d with
               | Some s => Ok (map (fun row => Stack nsd (remove_at nd bs0) row) (transpose_lists (Z.to_nat s) cols))
               | None => Raised
               end)
      | _ => match nth_error shape d with
             | Some s => Ok (map (fun k => Index (select_idx d (Z.of_nat k)) a) (seq 0 (Z.to_nat s)))
             | None => Raised
             end
      end)
    end
  end.

(* split(split_size | list, dim) *)
Definition narrow_idx (d : nat) (start stop : Z) : list item := repeat (ISl None None None) d ++ [ISl (Some start) (Some stop) None].
Fixpoint take_sizes {A} (sizes : list Z) (l : list A) : list (list A) :=
  match sizes with
  | [] => []
  | s :: r => firstn (Z.to_nat s) l :: take_sizes r (skipn (Z.to_nat s) l)
  end.
Fixpoint offsets (start : Z) (sizes : list Z) : list (Z * Z) :=
  match sizes with [] => [] | s :: r => (start, start + s) :: offsets (start + s) r end.

(* TensorDict.split(list, dim) (_td.py:1719): slices (0, s0), (s0, min(max, s0+s1)), ...; the first is NOT clamped;
   raises only when the sizes sum to less than the dim *)
Fixpoint td_split_go (maxs idx1 : Z) (sizes : list Z) : list (Z * Z) * Z :=
  match sizes with
  | [] => ([], idx1)
  | s :: r => let hi := Z.min maxs (idx1 + s) in
              let '(l, last) := td_split_go maxs hi r in ((idx1, hi) :: l, last)
  end.
Definition td_split_pieces (maxs : Z) (sizes : list Z) : res (list (Z * Z)) :=
  match sizes with
  | [] => Raised
  | s0 :: r => let '(l, last) := td_split_go maxs s0 r in
               if last <? maxs then Raised else Ok ((0, s0) :: l)
  end.

Definition int_split_sizes (n k : Z) : list Z :=
  (* [k] * ceil(n/k) with the last entry n - sum of the others *)
  let m := - ((n) / (- k)) in
  if m <=? 0 then [] else repeat k (Z.to_nat m - 1) ++ [n - k * (m - 1)].

Fixpoint lz_split (fuel : nat) (a : arr) (sizes : list Z) (isint : bool) (dim : Z) : res (list arr) :=
  match fuel with
  | O => OutOfFuel
  | S f =>
    match shape_of a with
    | None => Raised
    | Some shape =>
      rbind (norm_dim dim (List.length shape)) (fun d =>
      match a, nth_error shape d with
      | Stack sd bs0 parts, Some sz =>
          if Nat.eqb d sd then
            let szs := if isint then (match sizes with k :: _ => if k =? 0 then [] else int_split_sizes (lenZ parts) k | [] => [] end) else sizes in
            if isint && (match sizes with k :: _ => k <=? 0 | [] => true end) then Raised else
            (* slices of the member list; a zero size yields an EMPTY lazy stack built from batch_size *)
            (* a zero size: LazyStackedTensorDict(batch_size = self.batch_size without the stack dim, stack_dim)
               (fix C08-D32; before, the full batch size with a 0 was passed and the constructor inserted the count 0 again) *)
            let zshape := firstn sd shape ++ 0 :: skipn (S sd) shape in
            Ok (map (fun ps => match ps with [] => Stack sd (remove_at sd zshape) [] | _ => Stack sd bs0 ps end)
                    ((fix go (szs : list Z) (l : list arr) : list (list arr) :=
                        match szs with
                        | [] => []
                        | s :: r => if s =? 0 then [] :: go r l else firstn (Z.to_nat s) l :: go r (skipn (Z.to_nat s) l)
                        end) szs parts))
          else
            let md := if (d <? sd)%nat then d else (d - 1)%nat in
            rbind (rmap (fun m => lz_split f m sizes isint (Z.of_nat md)) parts) (fun cols =>
            match cols with
            | c :: _ => if forallb (fun c' => Nat.eqb (List.length c') (List.length c)) cols
                        then Ok (map (fun row => Stack sd bs0 row) (transpose_lists (List.length c) cols)) else Raised
            | [] => Ok []
            end)
      | _, Some sz =>
          (* TensorDict.split: torch semantics on the leaves (sizes taken as given) *)
          if isint then
            (if (match sizes with k :: _ => k <=? 0 | [] => true end) then Raised else
             Ok (map (fun se => Index (narrow_idx d (fst se) (snd se)) a)
                     (offsets 0 (match sizes with k :: _ => (if sz =? 0 then [0] else int_split_sizes sz k) | [] => [] end))))
          else rbind (td_split_pieces sz sizes) (fun pcs => Ok (map (fun se => Index (narrow_idx d (fst se) (snd se)) a) pcs))
      | _, None => Raised
      end)
    end
  end.

(* insert / append (_lazy.py:3069-3122): list.insert on the member list + recomputed batch size *)
Definition py_list_insert {A} (l : list A) (i : Z) (x : A) : list A :=
  let n := lenZ l in
  let i' := if i <? 0 then Z.max 0 (i + n) else Z.min i n in
  insert_at (Z.to_nat i') x l.

Definition lz_insert (a : arr) (i : Z) (x : arr) : res arr :=
  match a with
  | Stack sd bs0 parts =>
      match parts with
      | p0 :: _ =>
          match shape_of p0, shape_of x with
          | Some s0, Some sx => if list_eqb s0 sx then Ok (Stack sd bs0 (py_list_insert parts i x)) else Raised
          | _, _ => Raised
          end
      | [] => match shape_of x with Some sx => Ok (Stack sd sx [x]) | None => Raised end
      end
  | _ => Raised
  end.

(* _lazy_cat(out=lazy), branch out.stack_dim == dim (_torch_func.py:436-442): the member slices each operand is
   written to.  [n_out] members in out, operand sizes along dim. *)
Fixpoint cat_out_slices_gen (fixed : bool) (n_out : Z) (init_idx : Z) (sizes : list Z) : list (Z * Z) :=
  match sizes with
  | [] => []
  | s :: r =>
      let lo := Z.min init_idx n_out in
      let hi := Z.min (init_idx + s) n_out in          (* Python slicing truncates *)
      (lo, hi) :: cat_out_slices_gen fixed n_out (if fixed then init_idx + s else init_idx + (init_idx + s)) r
  end.
Definition cat_out_slices := cat_out_slices_gen fixed_D13.
(* what the branch does with those slices today: an EMPTY slice makes maybe_dense_stack([]) raise, a truncated one makes
   the update raise (shape mismatch); otherwise the operand is written into maybe_dense_stack(slice) -- a dense COPY when
   the members stack densely -- so out stays as it was *)
Inductive cat_out_outcome := CatRaises | CatOutUnchanged | CatWritten.
Definition cat_out_result (n_out : Z) (sizes : list Z) : cat_out_outcome :=
  if existsb (fun p => negb (snd (fst p) - fst (fst p) =? snd p)) (combine (cat_out_slices n_out 0 sizes) sizes) then CatRaises
  else if fixed_D13 then CatWritten else CatOutUnchanged.
(* spec: operand k goes to members [sum_{i<k} n_i, sum_{i<=k} n_i) *)
Definition cat_spec_slices (sizes : list Z) : list (Z * Z) := offsets 0 sizes.

(* _stack of lazy operands that all are lazy stacks with equal leaf shapes (_torch_func.py:518-574):
   result = LazyStackedTensorDict of the per-column stacks along dim', with stack_dim = lazy_stack_dim' *)
Definition stack_lazy_plan (lazy_sd dim : nat) : nat * nat :=
  if (dim <=? lazy_sd)%nat then (S lazy_sd, dim) else (lazy_sd, (dim - 1)%nat).
