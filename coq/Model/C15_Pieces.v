(* Model of the result-producing side of tensordict/tensorclass.py and of the non-tensor rules of torch.cat / torch.stack
   (definitions only).

   Part 1 - objects with identity.  The two stores of an instance (_tensordict, _non_tensordict) are heap objects; an instance
   is a pair of addresses.  tensorclass._unbind, the tuple branch of _wrap_td_method (split, chunk, max(dim) ...),
   __torch_function__ (torch.unbind, torch.split ...) and _getitem build EVERY result as
       cls._from_tensordict(td_i, dict(self._non_tensordict))
   i.e. a fresh copy of the non-tensor dict per result, which _from_tensordict then edits in place (None entries under tensor
   keys deleted, missing fields registered as None).  The tensordicts td_i are whatever the underlying tensordict returned:
   they are given by address, and may be shared with other instances (members of a lazy stack).
   _set / _del_ edit both stores of the instance in place.

   Part 2 - _torch_func._same_non_tensor, the non-tensor branch of _cat, NonTensorData._stack_non_tensor, and the store given to
   the result of an n-ary function (the first operand's). *)
From Coq Require Import List String Bool Arith.
Import ListNotations.
From TD Require Import Model.C15_TCWrap.
Open Scope string_scope.
Open Scope list_scope.

(* ------------------------------------------------------------------------------------------------ heaps *)
Record heap := { h_td : list (list (string * tval)); h_nt : list ntdict }.
Record inst := { i_td : nat; i_nt : nat }.

Fixpoint hset {A} (l : list A) (a : nat) (v : A) : list A :=
  match l, a with
  | [], _ => []
  | _ :: r, O => v :: r
  | x :: r, S a' => x :: hset r a' v
  end.

Definition view (h : heap) (p : inst) : option state :=
  match nth_error (h_td h) (i_td p), nth_error (h_nt h) (i_nt p) with
  | Some td, Some nt => Some {| s_td := td; s_nt := nt |}
  | _, _ => None
  end.

Definition get_field_h (fields : list string) (h : heap) (p : inst) (item : string) : option got :=
  option_map (fun s => getattr fields s item) (view h p).
Definition key_access_h (h : heap) (p : inst) (item : string) : option got :=
  option_map (fun s => key_access s item) (view h p).
Definition wf_h (fields : list string) (h : heap) (p : inst) : bool :=
  match view h p with Some s => wfb fields s | None => false end.

Inductive hres := HOk (h : heap) | HErr (e : err) | HDangling.

Definition write_back (h : heap) (p : inst) (s : state) : heap :=
  {| h_td := hset (h_td h) (i_td p) (s_td s); h_nt := hset (h_nt h) (i_nt p) (s_nt s) |}.

(* tc.key = value / tc.set(key, value): both dict objects of the instance are edited in place *)
Definition set_field_h (fields : list string) (locked : bool) (o : opts) (hn : hint) (h : heap) (p : inst) (k : string) (v : vkind) (id : nat) : hres :=
  match view h p with
  | None => HDangling
  | Some s => match set_field fields locked o hn s k v id with
              | SErr e => HErr e
              | SOk s' => HOk (write_back h p s')
              end
  end.

(* _del_ for a string key: an entry of the tensordict is deleted; an entry of the non-tensor store becomes None *)
Definition del_field (s : state) (k : string) : setres :=
  if mem k (keys (s_td s)) then SOk {| s_td := remove_key k (s_td s); s_nt := s_nt s |}
  else if mem k (keys (s_nt s)) then SOk {| s_td := s_td s; s_nt := upd k NNone (s_nt s) |}
  else SErr EKey.
Definition del_field_h (h : heap) (p : inst) (k : string) : hres :=
  match view h p with
  | None => HDangling
  | Some s => match del_field s k with SErr e => HErr e | SOk s' => HOk (write_back h p s') end
  end.

(* ------------------------------------------------------------------------------------------------ building the results *)
Inductive ores := OOk (h : heap) (p : inst) | OErr (e : err) | ODangling.
Inductive rres := ROk (h : heap) (ps : list inst) | RErr (e : err) | RDangling.

(* _from_tensordict on the dict object at address [nta] (edited in place), for the tensordict at address [tda] *)
Definition from_td_inplace (fields : list string) (h : heap) (tda nta : nat) : ores :=
  match nth_error (h_td h) tda, nth_error (h_nt h) nta with
  | Some td, Some nt =>
      match from_tensordict fields (keys td) nt with
      | FOk nt' => OOk {| h_td := h_td h; h_nt := hset (h_nt h) nta nt' |} {| i_td := tda; i_nt := nta |}
      | FErr e => OErr e
      end
  | _, _ => ODangling
  end.

(* dict(self._non_tensordict): a new dict object with the same entries *)
Definition copy_store (h : heap) (src : inst) : option (heap * nat) :=
  match nth_error (h_nt h) (i_nt src) with
  | Some nt => Some ({| h_td := h_td h; h_nt := h_nt h ++ [nt] |}, List.length (h_nt h))
  | None => None
  end.

(* one result: type(self)._from_tensordict(td, non_tensordict=dict(self._non_tensordict)) *)
Definition rewrap_one (fields : list string) (h : heap) (src : inst) (tda : nat) : ores :=
  match copy_store h src with
  | Some (h1, a) => from_td_inplace fields h1 tda a
  | None => ODangling
  end.

(* tuple(... for td in self._tensordict.unbind(dim)) / tuple(deliver_result(self, r, kwargs) for r in result) /
   type(result)(_from_tensordict_with_copy(tc, r) for r in result): left to right, each with its own copy *)
Fixpoint rewrap_all (fields : list string) (h : heap) (src : inst) (tds : list nat) : rres :=
  match tds with
  | [] => ROk h []
  | a :: r =>
      match rewrap_one fields h src a with
      | OOk h1 p => match rewrap_all fields h1 src r with ROk h2 ps => ROk h2 (p :: ps) | e => e end
      | OErr e => RErr e
      | ODangling => RDangling
      end
  end.

(* NOT the library: the variant in which the copy is taken once, outside the loop, and handed to every result.  Used only by
   an Example that shows the frame theorem tells the two apart. *)
Fixpoint rewrap_shared_loop (fields : list string) (h : heap) (a : nat) (tds : list nat) : rres :=
  match tds with
  | [] => ROk h []
  | t :: r =>
      match from_td_inplace fields h t a with
      | OOk h1 p => match rewrap_shared_loop fields h1 a r with ROk h2 ps => ROk h2 (p :: ps) | e => e end
      | OErr e => RErr e
      | ODangling => RDangling
      end
  end.
Definition rewrap_all_shared (fields : list string) (h : heap) (src : inst) (tds : list nat) : rres :=
  match copy_store h src with
  | Some (h1, a) => rewrap_shared_loop fields h1 a tds
  | None => RDangling
  end.

(* ------------------------------------------------------------------------------------------------ python values *)
Record pyobj := { oid : nat; ocls : nat; oraises : bool }.     (* identity, equality class, "== raises" *)
Inductive eqres := EqT | EqF | EqRaise.
Definition py_eq (a b : pyobj) : eqres := if oraises a || oraises b then EqRaise else if Nat.eqb (ocls a) (ocls b) then EqT else EqF.
Definition py_is (a b : pyobj) : bool := Nat.eqb (oid a) (oid b).

(* the entries found under one key in the operands, seen along the cat / stack dimension *)
Inductive ntitem :=
| INtd (rows : nat) (v : pyobj)       (* NonTensorData: one value for all its rows *)
| INts (vs : list pyobj)              (* NonTensorStack along the dimension: one value per row *)
| ITensor (rows : nat).               (* not non-tensor data *)

Definition is_ntd (it : ntitem) : bool := match it with INtd _ _ => true | _ => false end.
Definition is_nt (it : ntitem) : bool := match it with ITensor _ => false | _ => true end.
Definition item_rows (it : ntitem) : list pyobj := match it with INtd n v => repeat v n | INts vs => vs | ITensor _ => [] end.
Definition item_nrows (it : ntitem) : nat := match it with INtd n _ => n | INts vs => List.length vs | ITensor n => n end.

(* _same_non_tensor: for item in items[1:]: identical -> continue; not (==) or == raises -> return False; return True *)
Fixpoint same_loop (first : pyobj) (rest : list ntitem) : bool :=
  match rest with
  | [] => true
  | INtd _ v :: r =>
      if py_is v first then same_loop first r
      else match py_eq v first with EqT => same_loop first r | EqF => false | EqRaise => false end
  | _ :: _ => false
  end.
Definition same_non_tensor (items : list ntitem) : bool :=
  if negb (forallb is_ntd items) then false
  else match items with INtd _ v :: r => same_loop v r | _ => false end.

(* NOT the library: the loop that returns the outcome of the first comparison.  Used only by a discriminating Example. *)
Fixpoint same_loop_first_only (first : pyobj) (rest : list ntitem) : bool :=
  match rest with
  | [] => true
  | INtd _ v :: r =>
      if py_is v first then same_loop_first_only first r
      else match py_eq v first with EqT => true | EqF => false | EqRaise => false end
  | _ :: _ => false
  end.

Inductive ntres :=
| NStack (rows : list pyobj)          (* NonTensorStack of the pieces, stack_dim=dim *)
| NData (n : nat) (v : pyobj)         (* one NonTensorData: value v on n rows *)
| NTensors.                           (* the tensor path *)

(* _cat, per key: all non-tensor and not one value -> the rows of the operands side by side; otherwise torch.cat(items, dim),
   which for NonTensorData operands re-wraps with the first operand's value *)
Definition cat_key (same : list ntitem -> bool) (items : list ntitem) : ntres :=
  if forallb is_nt items && negb (same items) then NStack (flat_map item_rows items)
  else if forallb is_ntd items then
    match items with INtd _ v :: _ => NData (fold_right (fun it n => item_nrows it + n) 0 items) v | _ => NTensors end
  else NTensors.
Definition cat_nt := cat_key same_non_tensor.
Definition res_rows (r : ntres) : list pyobj := match r with NStack rows => rows | NData n v => repeat v n | NTensors => [] end.

(* NonTensorData._stack_non_tensor with capture_non_tensor_stack() = True: ids of the values seen so far; from the second
   distinct id on, every value (even an already seen object) is compared with the first by _check_equal (an exception = different) *)
Definition check_equal (a b : pyobj) : bool := match py_eq a b with EqT => true | _ => false end.
Fixpoint stack_loop (first : pyobj) (ids : list nat) (rest : list ntitem) : bool :=
  match rest with
  | [] => true
  | INtd _ v :: r =>
      let ids' := if existsb (Nat.eqb (oid v)) ids then ids else oid v :: ids in
      if Nat.ltb 1 (List.length ids') then (if check_equal v first then stack_loop first ids' r else false)
      else stack_loop first ids' r
  | _ :: _ => false
  end.
(* one entry per operand along the new dimension *)
Definition item_value (it : ntitem) : option pyobj := match it with INtd _ v => Some v | _ => None end.
Definition stack_nt (items : list ntitem) : ntres :=
  match items with
  | INtd _ v :: _ =>
      if stack_loop v [] items then NData (List.length items) v
      else if forallb is_ntd items then NStack (flat_map (fun it => match item_value it with Some v => [v] | None => [] end) items)
      else NTensors
  | _ => NTensors
  end.

(* the _non_tensordict of the result of an n-ary function: __torch_function__ and _stack._rewrap copy the FIRST operand's *)
Definition nary_store (stores : list ntdict) : option ntdict := match stores with s :: _ => Some s | [] => None end.
