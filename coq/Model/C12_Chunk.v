(* Model of the chunking arithmetic and of the reassembly done by TensorDictBase.map / map_iter:
     utils.py::_split_tensordict          (all modes: num_chunks / chunksize / chunksize == 0, generator on/off, shuffle)
     base.py::chunk, _td.py::split (int)  (the `-(n // -k)` ceiling, the while loop over idx0/idx1)
     base.py::_map                        (imap results in submission order, running start/end offsets with out=,
                                           None results, the chunksize == 0 branch, cat / stack of the list, the
                                           shared / memmap out= wrapper that writes inside the workers)
   Definitions only.  Lengths and indices are [nat]; the ceiling is computed in [Z] exactly as python does. *)
From Coq Require Import ZArith List Bool Lia.
Import ListNotations.
Open Scope nat_scope.

Inductive err :=
| EValue      (* ValueError  *)
| ERuntime    (* RuntimeError *)
| EZeroDiv    (* ZeroDivisionError *)
| EType       (* TypeError *)
| EShape      (* shape mismatch raised by update_ *)
| EIndex      (* IndexError *)
| EDiverge.   (* the python loop does not terminate (made explicit by fuel) *)

Inductive res (A : Type) := Ok (a : A) | Raised (e : err).
Arguments Ok {A} a.
Arguments Raised {A} e.

Definition rbind {A B} (r : res A) (f : A -> res B) : res B :=
  match r with Ok a => f a | Raised e => Raised e end.
Definition rmap {A B} (f : A -> B) (r : res A) : res B :=
  match r with Ok a => Ok (f a) | Raised e => Raised e end.

(* ---------------------------------------------------------------- python's  -(n // -k)  *)
(* python's // is floor division, which is Coq's Z.div (the remainder has the sign of the divisor) *)
Definition pyceil (n k : nat) : nat := Z.to_nat (- (Z.of_nat n / - Z.of_nat k))%Z.

(* ---------------------------------------------------------------- TensorDict.split(int) (_td.py) *)
(*  idx0 = 0; idx1 = min(max_size, split_size); slices = [slice(idx0, idx1)]
    while idx1 < max_size: idx0 = idx1; idx1 = min(max_size, idx1 + split_size); slices.append(slice(idx0, idx1)) *)
Fixpoint split_loop (fuel n ss idx1 : nat) : res (list (nat * nat)) :=
  if idx1 <? n then
    match fuel with
    | 0 => Raised EDiverge
    | S f => let idx1' := min n (idx1 + ss) in
             rmap (cons (idx1, idx1')) (split_loop f n ss idx1')
    end
  else Ok [].

Definition td_split (n ss : nat) : res (list (nat * nat)) :=
  let idx1 := min n ss in
  rmap (cons (0, idx1)) (split_loop n n ss idx1).

(* TensorDictBase.chunk: `if chunks < 1: raise ValueError`; split_size = -(n // -chunks); return self.split(split_size) *)
(* a dim of size 0 (split_size == 0): `chunks` empty chunks, as torch.chunk does *)
Definition td_chunk (n chunks : nat) : res (list (nat * nat)) :=
  if chunks <? 1 then Raised EValue
  else if Nat.eqb (pyceil n chunks) 0 then Ok (repeat (0, 0) chunks)
  else td_split n (pyceil n chunks).

(* ---------------------------------------------------------------- _split_tensordict *)
Inductive piece :=
| PSl (a b : nat)   (* td[base + (slice(a, b),)]  — b may exceed n in generator mode; indexing clamps *)
| PIx (i : nat).    (* td[base + (i,)] / the i-th element of unbind: the dim is removed *)

(*  idx_start = 0; idx_end = chunksize
    while idx_start < n: yield slice(idx_start, idx_end); idx_start = idx_end; idx_end += chunksize *)
Fixpoint gen_loop (fuel n cs s e : nat) : res (list piece) :=
  if s <? n then
    match fuel with
    | 0 => Raised EDiverge
    | S f => rmap (cons (PSl s e)) (gen_loop f n cs e (e + cs))
    end
  else Ok [].
Definition gen_slices (n cs : nat) : res (list piece) := gen_loop n n cs 0 cs.

(* what _split_tensordict does with the tensordict: the call it delegates to, or the indices its generator yields *)
Inductive split_call :=
| CChunk (k : nat)          (* td.chunk(k, dim) *)
| CSplit (k : nat)          (* td.split(k, dim) *)
| CUnbind                   (* td.unbind(dim) *)
| CGen (l : list piece).    (* generator: td[base + (idx,)] for idx in l *)

Definition num_chunks_mode (n k : nat) (gen : bool) : res split_call :=
  let k' := min n k in                                   (* num_chunks = min(td.shape[dim], num_chunks) *)
  if gen then
    if k' =? 0 then Raised EZeroDiv                      (* -(n // -0), raised when the generator starts *)
    else rmap CGen (gen_slices n (pyceil n k'))
  else Ok (CChunk k').

Definition split_call_of (n : nat) (chunksize num_chunks : option nat) (num_workers : nat)
           (gen shuffle : bool) : res split_call :=
  if shuffle && negb gen then Raised ERuntime else
  match chunksize, num_chunks with
  | None, None => num_chunks_mode n num_workers gen      (* num_chunks = num_workers *)
  | Some _, Some _ => Raised EValue
  | None, Some k => num_chunks_mode n k gen
  | Some 0, None => if gen then Ok (CGen (map PIx (seq 0 n))) else Ok CUnbind
  | Some c, None => if gen then rmap CGen (gen_slices n c)
                    else Ok (CSplit (min n c))           (* chunksize = min(td.shape[dim], chunksize) *)
  end.

Definition pieces_of_call (n : nat) (c : split_call) : res (list piece) :=
  match c with
  | CChunk k => rmap (map (fun p => PSl (fst p) (snd p))) (td_chunk n k)
  | CSplit k => rmap (map (fun p => PSl (fst p) (snd p))) (td_split n k)
  | CUnbind => Ok (map PIx (seq 0 n))
  | CGen l => Ok l
  end.

Definition split_pieces (n : nat) (cs nc : option nat) (nw : nat) (gen shuffle : bool) : res (list piece) :=
  rbind (split_call_of n cs nc nw gen shuffle) (pieces_of_call n).

(* positions [a, b) along the dim that a piece selects out of n (python slicing clamps) *)
Definition bounds (n : nat) (p : piece) : nat * nat :=
  match p with
  | PSl a b => (min a n, min b n)
  | PIx i => (i, S i)
  end.
Definition is_unbound (p : piece) : bool := match p with PIx _ => true | PSl _ _ => false end.

(* rows [a, b) of a list *)
Definition take {A} (l : list A) (ab : nat * nat) : list A := firstn (snd ab - fst ab) (skipn (fst ab) l).

(* shuffle: rp = torch.randperm(n); the generator yields rp[idx] — the chunk is the rows listed there *)
Definition shuffle_pieces (rp : list nat) (l : list piece) : list (list nat) :=
  map (fun p => take rp (bounds (length rp) p)) l.

(* ---------------------------------------------------------------- _map: reassembly *)
(* TRUSTED: multiprocessing.Pool.imap yields the results in submission order *)
Definition trusted_imap {X Y} (f : X -> Y) (l : list X) : list Y := map f l.

(* out[base + (slice(start, end),)].update_(item): the indexed view must have the item's shape *)
Definition write_at {B} (out : list B) (start : nat) (rows : list B) : res (list B) :=
  if start + length rows <=? length out
  then Ok (firstn start out ++ rows ++ skipn (start + length rows) out)
  else Raised EShape.

(*  out_split = _split_tensordict(out, chunksize, num_chunks, num_workers, dim, use_generator=...)      (fix S1)
    for item, out_chunk in zip(imap, out_split, strict=True):
        if item is not None: out_chunk.update_(item)
    — the k-th result goes to the k-th chunk of out whether or not earlier results are None;
      without out=: `if item is not None: imaplist.append(item)`. *)
Fixpoint reassemble_out {B} (out : list B) (bs : list (nat * nat)) (items : list (option (list B))) : res (list B) :=
  match bs, items with
  | [], [] => Ok out
  | (a, b) :: bs', Some rows :: r =>
      if length rows =? b - a then rbind (write_at out a rows) (fun out' => reassemble_out out' bs' r) else Raised EShape
  | _ :: bs', None :: r => reassemble_out out bs' r
  | _, _ => Raised EValue                     (* zip(strict=True) *)
  end.

Fixpoint somes {B} (items : list (option B)) : list B :=
  match items with [] => [] | None :: r => somes r | Some x :: r => x :: somes r end.

(* `if imaplist: out = torch.cat(imaplist, dim)` (or the dense stack when chunksize == 0) *)
Definition cat_results {B} (items : list (option (list B))) : option (list B) :=
  match somes items with [] => None | l => Some (concat l) end.

(* shared / memmap out=: newfn((item, out_chunk)) does `result = fn(item); if result is not None: out_chunk.update_(result)`
   inside the worker (fix C12-a) and returns None; out_chunk is the piece of `out` produced by the same
   _split_tensordict arguments *)
Fixpoint shared_out {B} (out : list B) (bs : list (nat * nat)) (items : list (option (list B))) : res (list B) :=
  match bs, items with
  | (a, b) :: bs', Some rows :: r =>
      if length rows =? b - a then rbind (write_at out a rows) (fun out' => shared_out out' bs' r) else Raised EShape
  | _ :: bs', None :: r => shared_out out bs' r
  | _, _ => Ok out
  end.

Inductive outkind := ONone | ORegular | OShared.

Inductive mapres (B : Type) :=
| RetNone                         (* map returns None, no out buffer *)
| RetCat (l : list B)             (* map returns the cat / stack of the non-None results *)
| RetOut (o : list B)             (* out= regular: map returns out, whose content is o *)
| RetNoneOut (o : list B).        (* out= shared / memmap: map returns None, the buffer's content is o *)
Arguments RetNone {B}.
Arguments RetCat {B} l.
Arguments RetOut {B} o.
Arguments RetNoneOut {B} o.

(* the whole of map for one dim of size n = length rows; f is the user function seen as: piece rows -> result rows *)
Definition map_model {A B} (f : list A -> option (list B)) (rows : list A) (kind : outkind) (out : list B)
           (cs nc : option nat) (nw : nat) (gen : bool) : res (mapres B) :=
  let n := length rows in
  rbind (split_pieces n cs nc nw gen false) (fun ps =>
  let bs := map (bounds n) ps in
  let items := trusted_imap (fun ab => f (take rows ab)) bs in
  match kind with
  | ONone => Ok (match cat_results items with None => RetNone | Some l => RetCat l end)
  | ORegular =>
      rbind (split_pieces (length out) cs nc nw gen false) (fun ops =>
      rmap RetOut (reassemble_out out (map (bounds (length out)) ops) items))
  | OShared =>
      (* out_split is built with the same arguments on `out`; zip(strict=True) of the two *)
      rbind (split_pieces (length out) cs nc nw gen false) (fun ops =>
      if length ops =? length ps then rmap RetNoneOut (shared_out out (map (bounds (length out)) ops) items)
      else Raised EValue)
  end).

(* ---------------------------------------------------------------- the sequential form (specification) *)
(* chunk k of the results is placed at slice k of out; a None result leaves that slice as it was *)
Fixpoint seq_out {B} (out : list B) (bs : list (nat * nat)) (items : list (option (list B))) : list B :=
  match bs, items with
  | (a, b) :: bs', Some rows :: r => seq_out (firstn a out ++ rows ++ skipn (a + length rows) out) bs' r
  | _ :: bs', None :: r => seq_out out bs' r
  | _, _ => out
  end.

(* closed form of the documented partition: pieces of size s, the last one ragged *)
Definition spec_bounds (n s : nat) : list (nat * nat) :=
  map (fun i => (i * s, min n ((i + 1) * s))) (seq 0 ((n + s - 1) / s)).

(* a list of bounds tiles [lo, hi): consecutive, in order, each non-empty *)
Fixpoint tiles (lo hi : nat) (bs : list (nat * nat)) : Prop :=
  match bs with
  | [] => lo = hi
  | (a, b) :: r => a = lo /\ a < b /\ tiles b hi r
  end.

Fixpoint tilesb (lo hi : nat) (bs : list (nat * nat)) : bool :=
  match bs with
  | [] => lo =? hi
  | (a, b) :: r => (a =? lo) && (a <? b) && tilesb b hi r
  end.
