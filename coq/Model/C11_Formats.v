(* C11 — the structural formats on trees:
   base.py::to_dict / _td.py::from_dict(batch_size=...)  (a plain nested dict: keys and values only),
   _pytree.py::_tensordict_flatten / _tensordict_unflatten (context = keys, batch_size, names, device, class; no lock state),
   base.py::state_dict / load_state_dict (nested OrderedDict + "__batch_size" / "__device" per level; strict, in place).
   Definitions only. *)
From Coq Require Import ZArith List Bool Arith String.
Import ListNotations.
From TD Require Import Model.C11_Layout Model.C11_Tree.
Open Scope nat_scope.

Fixpoint eqb_list (a b : list nat) : bool :=
  match a, b with
  | [], [] => true
  | x :: a', y :: b' => (x =? y) && eqb_list a' b'
  | _, _ => false
  end.
(* shape[:len(bs)] == bs *)
Definition prefixb (bs shape : list nat) : bool := eqb_list bs (firstn (List.length bs) shape).

Definition no_names (n : nat) : list (option string) := repeat None n.
Definition blank (bs : list nat) : nmeta := {| m_bs := bs; m_names := no_names (List.length bs); m_dev := None; m_locked := false |}.

(* ---------------------------------------------------------------- to_dict / from_dict *)
Inductive dct :=
| DNil
| DLeaf (k : string) (l : leaf) (v : option nat) (r : dct)     (* the tensor object itself (no copy) *)
| DNonT (k : string) (p : Z) (r : dct)                         (* the raw python object *)
| DSub (k : string) (d : dct) (r : dct).

Fixpoint to_dict_f (f : forest) : dct :=
  match f with
  | FNil => DNil
  | FLeaf k l v r => DLeaf k l v (to_dict_f r)
  | FNonT k p _ r => DNonT k p (to_dict_f r)
  | FSub k (Node _ f') r => DSub k (to_dict_f f') (to_dict_f r)
  end.
Definition to_dict (t : tree) : dct := to_dict_f (ents t).

(* TensorDict.from_dict(d, batch_size=bs): every level is built with batch_size=bs (from_any passes it down); the constructor
   validates every tensor against it; no names, no device, not locked *)
Fixpoint from_dict_f (d : dct) (bs : list nat) : res forest :=
  match d with
  | DNil => Ok FNil
  | DLeaf k l v r =>
      if prefixb bs (l_shape l) then
        match from_dict_f r bs with Ok f => Ok (FLeaf k l v f) | Raised e => Raised e end
      else Raised EShape
  | DNonT k p r => match from_dict_f r bs with Ok f => Ok (FNonT k p bs f) | Raised e => Raised e end
  | DSub k d' r =>
      match from_dict_f d' bs with
      | Raised e => Raised e
      | Ok f' => match from_dict_f r bs with Ok f => Ok (FSub k (Node (blank bs) f') f) | Raised e => Raised e end
      end
  end.
Definition from_dict (d : dct) (bs : list nat) : res tree :=
  match from_dict_f d bs with Ok f => Ok (Node (blank bs) f) | Raised e => Raised e end.

(* what a dict cannot say: every node gets the batch size passed again by the caller, nothing else *)
Fixpoint blanked_t (bs : list nat) (t : tree) : tree := match t with Node _ f => Node (blank bs) (blanked_f bs f) end
with blanked_f (bs : list nat) (f : forest) : forest :=
  match f with
  | FNil => FNil
  | FLeaf k l v r => FLeaf k l v (blanked_f bs r)
  | FNonT k p _ r => FNonT k p bs (blanked_f bs r)
  | FSub k t r => FSub k (blanked_t bs t) (blanked_f bs r)
  end.

(* every tensor of the tree (at any depth) has bs as a prefix of its shape *)
Fixpoint all_prefix_t (bs : list nat) (t : tree) : bool := match t with Node _ f => all_prefix_f bs f end
with all_prefix_f (bs : list nat) (f : forest) : bool :=
  match f with
  | FNil => true
  | FLeaf _ l _ r => prefixb bs (l_shape l) && all_prefix_f bs r
  | FNonT _ _ _ r => all_prefix_f bs r
  | FSub _ t r => all_prefix_t bs t && all_prefix_f bs r
  end.

(* coherence (C01): entries extend the node's batch size, nested nodes extend their parent's; the device of a nested
   node is its parent's when the parent has one; the only device is cpu = 0 *)
Fixpoint coherent_t (t : tree) : bool :=
  match t with Node m f => (match m_dev m with Some d => d =? 0 | None => true end) && coherent_f (m_bs m) (m_dev m) f end
with coherent_f (bs : list nat) (dv : option nat) (f : forest) : bool :=
  match f with
  | FNil => true
  | FLeaf _ l _ r => prefixb bs (l_shape l) && coherent_f bs dv r
  | FNonT _ _ nbs r => prefixb bs nbs && coherent_f bs dv r
  | FSub _ t r =>
      prefixb bs (m_bs (meta t)) && (match dv with None => true | Some d => match m_dev (meta t) with Some d' => d =? d' | None => false end end)
      && coherent_t t && coherent_f bs dv r
  end.

(* ---------------------------------------------------------------- pytree *)
(* tree_flatten: the tensors in depth-first insertion order (NonTensorData contributes no leaf); the spec keeps keys,
   batch_size, names, device, the non-tensor items -- and no lock state *)
Fixpoint pt_leaves (t : tree) : list (leaf * option nat) := match t with Node _ f => pt_leaves_f f end
with pt_leaves_f (f : forest) : list (leaf * option nat) :=
  match f with
  | FNil => []
  | FLeaf _ l v r => (l, v) :: pt_leaves_f r
  | FNonT _ _ _ r => pt_leaves_f r
  | FSub _ t r => pt_leaves t ++ pt_leaves_f r
  end.

Definition hole : leaf := {| l_dt := 0; l_esz := 0; l_shape := []; l_bytes := [] |}.
Fixpoint pt_spec (t : tree) : tree := match t with Node m f => Node (set_locked m false) (pt_spec_f f) end
with pt_spec_f (f : forest) : forest :=
  match f with
  | FNil => FNil
  | FLeaf k _ _ r => FLeaf k hole None (pt_spec_f r)
  | FNonT k p bs r => FNonT k p bs (pt_spec_f r)
  | FSub k t r => FSub k (pt_spec t) (pt_spec_f r)
  end.

(* the values' leading dims against the context's batch size: `_shape(value)[:batch_dims] != batch_size` *)
Fixpoint shapes_ok (bs : list nat) (f : forest) : bool :=
  match f with
  | FNil => true
  | FLeaf _ l _ r => prefixb bs (l_shape l) && shapes_ok bs r
  | FNonT _ _ nbs r => prefixb bs nbs && shapes_ok bs r
  | FSub _ t r => prefixb bs (m_bs (meta t)) && shapes_ok bs r
  end.
(* `device if all(val.device == device ...) else None`: tensors are on the (single) cpu device 0 *)
Fixpoint devices_ok (d : nat) (f : forest) : bool :=
  match f with
  | FNil => true
  | FLeaf _ _ _ r => (d =? 0) && devices_ok d r
  | FNonT _ _ _ r => devices_ok d r
  | FSub _ t r => (match m_dev (meta t) with Some d' => d =? d' | None => false end) && devices_ok d r
  end.

Definition pt_node (m : nmeta) (f : forest) : tree :=
  let dv := match m_dev m with Some d => if devices_ok d f then Some d else None | None => None end in
  if shapes_ok (m_bs m) f
  then Node {| m_bs := m_bs m; m_names := m_names m; m_dev := dv; m_locked := false |} f
  else Node {| m_bs := []; m_names := []; m_dev := dv; m_locked := false |} f.

Fixpoint pt_unflatten_t (spec : tree) (ls : list (leaf * option nat)) : option (tree * list (leaf * option nat)) :=
  match spec with
  | Node m f => match pt_unflatten_f f ls with Some (f', rest) => Some (pt_node m f', rest) | None => None end
  end
with pt_unflatten_f (spec : forest) (ls : list (leaf * option nat)) : option (forest * list (leaf * option nat)) :=
  match spec with
  | FNil => Some (FNil, ls)
  | FLeaf k _ _ r =>
      match ls with
      | [] => None
      | (l, v) :: ls' => match pt_unflatten_f r ls' with Some (r', rest) => Some (FLeaf k l v r', rest) | None => None end
      end
  | FNonT k p bs r => match pt_unflatten_f r ls with Some (r', rest) => Some (FNonT k p bs r', rest) | None => None end
  | FSub k t r =>
      match pt_unflatten_t t ls with
      | None => None
      | Some (t', mid) => match pt_unflatten_f r mid with Some (r', rest) => Some (FSub k t' r', rest) | None => None end
      end
  end.
Definition pt_unflatten (ls : list (leaf * option nat)) (spec : tree) : option tree :=
  match pt_unflatten_t spec ls with Some (t, []) => Some t | _ => None end.

(* ---------------------------------------------------------------- state_dict / load_state_dict *)
Inductive sdt := SD (bs : list nat) (dev : option nat) (f : sdf)
with sdf :=
| SNil
| SLeaf (k : string) (l : leaf) (r : sdf)          (* item.detach().clone() *)
| SNonT (k : string) (p : Z) (r : sdf)
| SSub (k : string) (d : sdt) (r : sdf).

Fixpoint state_dict (t : tree) : sdt := match t with Node m f => SD (m_bs m) (m_dev m) (state_f f) end
with state_f (f : forest) : sdf :=
  match f with
  | FNil => SNil
  | FLeaf k l _ r => SLeaf k l (state_f r)
  | FNonT k p _ r => SNonT k p (state_f r)
  | FSub k t r => SSub k (state_dict t) (state_f r)
  end.

Fixpoint sd_keys (s : sdf) : list string :=
  match s with SNil => [] | SLeaf k _ r | SNonT k _ r | SSub k _ r => k :: sd_keys r end.
Fixpoint f_keys (f : forest) : list string :=
  match f with FNil => [] | FLeaf k _ _ r | FNonT k _ _ r | FSub k _ r => k :: f_keys r end.
Definition mem (k : string) (l : list string) : bool := existsb (String.eqb k) l.
Definition same_keys (a b : list string) : bool := forallb (fun k => mem k b) a && forallb (fun k => mem k a) b.

(* self.set(key, item, inplace=True): copy_ into the tensor bound to key (same dtype and shape here; anything else is
   outside the modelled domain and says so) *)
Inductive lres := LOk (f : forest) | LRaise (e : err) | LUnmodelled.

Fixpoint store_leaf (g : forest) (k : string) (l : leaf) : lres :=
  match g with
  | FNil => LRaise EKey
  | FLeaf k' l' v r =>
      if String.eqb k k' then
        (if (l_dt l =? l_dt l') && (l_esz l =? l_esz l') && eqb_list (l_shape l) (l_shape l')
         then LOk (FLeaf k' l v r) else LUnmodelled)
      else match store_leaf r k l with LOk r' => LOk (FLeaf k' l' v r') | x => x end
  | FNonT k' p bs r =>
      if String.eqb k k' then LUnmodelled else match store_leaf r k l with LOk r' => LOk (FNonT k' p bs r') | x => x end
  | FSub k' t r =>
      if String.eqb k k' then LUnmodelled else match store_leaf r k l with LOk r' => LOk (FSub k' t r') | x => x end
  end.
Fixpoint store_nont (g : forest) (k : string) (p : Z) : lres :=
  match g with
  | FNil => LRaise EKey
  | FLeaf k' l' v r =>
      if String.eqb k k' then LUnmodelled else match store_nont r k p with LOk r' => LOk (FLeaf k' l' v r') | x => x end
  | FNonT k' p' bs r =>
      if String.eqb k k' then LOk (FNonT k' p bs r) else match store_nont r k p with LOk r' => LOk (FNonT k' p' bs r') | x => x end
  | FSub k' t r =>
      if String.eqb k k' then LUnmodelled else match store_nont r k p with LOk r' => LOk (FSub k' t r') | x => x end
  end.
(* dest = self.get(key); dest.load_state_dict(item); self.set(key, dest, inplace=True) *)
Fixpoint store_sub (g : forest) (k : string) (ld : tree -> option (res tree)) : lres :=
  match g with
  | FNil => LUnmodelled            (* dest = self.empty(): loading into a missing sub-tensordict is not modelled *)
  | FLeaf k' l' v r =>
      if String.eqb k k' then LUnmodelled else match store_sub r k ld with LOk r' => LOk (FLeaf k' l' v r') | x => x end
  | FNonT k' p bs r =>
      if String.eqb k k' then LUnmodelled else match store_sub r k ld with LOk r' => LOk (FNonT k' p bs r') | x => x end
  | FSub k' t r =>
      if String.eqb k k' then
        match ld t with Some (Ok t') => LOk (FSub k' t' r) | Some (Raised e) => LRaise e | None => LUnmodelled end
      else match store_sub r k ld with LOk r' => LOk (FSub k' t r') | x => x end
  end.

(* `self.batch_size = batch_size` (base.py::_batch_size_setter): nothing to do when equal; nested collections of lower
   rank are first given the new batch size themselves ("edge case"); then every entry must extend the new batch size
   (empty nested collections excepted); names are cut / padded to the new rank *)
Definition fit_names (names : list (option string)) (n : nat) : list (option string) :=
  firstn n names ++ no_names (n - List.length names).

Fixpoint is_empty_t (t : tree) : bool := match t with Node _ f => is_empty_f f end
with is_empty_f (f : forest) : bool :=
  match f with
  | FNil => true
  | FLeaf _ _ _ _ | FNonT _ _ _ _ => false
  | FSub _ t r => is_empty_t t && is_empty_f r
  end.

Fixpoint check_bs (bs : list nat) (f : forest) : bool :=
  match f with
  | FNil => true
  | FLeaf _ l _ r => prefixb bs (l_shape l) && check_bs bs r
  | FNonT _ _ nbs r => prefixb bs nbs && check_bs bs r
  | FSub _ t r => (prefixb bs (m_bs (meta t)) || is_empty_t t) && check_bs bs r
  end.

Fixpoint set_bs_t (bs : list nat) (t : tree) : option tree :=
  match t with
  | Node m f =>
      if eqb_list bs (m_bs m) then Some t else
      match grow_f bs f with
      | None => None
      | Some f' =>
          if check_bs bs f'
          then Some (Node {| m_bs := bs; m_names := fit_names (m_names m) (List.length bs); m_dev := m_dev m; m_locked := m_locked m |} f')
          else None
      end
  end
with grow_f (bs : list nat) (f : forest) : option forest :=
  match f with
  | FNil => Some FNil
  | FLeaf k l v r => match grow_f bs r with Some r' => Some (FLeaf k l v r') | None => None end
  | FNonT k p nbs r =>
      match grow_f bs r with
      | Some r' => Some (FNonT k p (if List.length nbs <? List.length bs then bs else nbs) r')
      | None => None end
  | FSub k t r =>
      match (if List.length (m_bs (meta t)) <? List.length bs then set_bs_t bs t else Some t), grow_f bs r with
      | Some t', Some r' => Some (FSub k t' r')
      | _, _ => None end
  end.

(* outcome of load_state_dict: the loaded target, an exception, or "outside the modelled domain" *)
Inductive lout := LDone (t : tree) | LExc (e : err) | LOut.

Fixpoint load_t (g : tree) (s : sdt) : lout :=
  match s with
  | SD bs dv sf =>
      if negb (same_keys (sd_keys sf) (f_keys (ents g))) then LExc EKey else
      match set_bs_t bs g with
      | None => LExc EShape
      | Some (Node m f) =>
          if (match dv, m_dev m with Some a, Some b => negb (a =? b) | _, _ => false end) then LExc EKey else
          match load_f f sf with
          | LOk f' => LDone (Node m f')
          | LRaise e => LExc e
          | LUnmodelled => LOut
          end
      end
  end
with load_f (g : forest) (s : sdf) : lres :=
  match s with
  | SNil => LOk g
  | SLeaf k l r => match store_leaf g k l with LOk g' => load_f g' r | x => x end
  | SNonT k p r => match store_nont g k p with LOk g' => load_f g' r | x => x end
  | SSub k d r =>
      match store_sub g k (fun t => match load_t t d with LDone t' => Some (Ok t') | LExc e => Some (Raised e) | LOut => None end) with
      | LOk g' => load_f g' r | x => x end
  end.
