(* Memoised class predicates and the @cache decorator: a table that the eager arm consults and fills, and the compile
   arm bypasses.
     utils._is_non_tensor / _pass_through_cls, base._is_tensor_collection:
         out = None; if not compiling: out = MEMO.get(cls); if out is None: out = f(cls); if not compiling: MEMO[cls] = out
     utils._is_tensorclass:   out = MEMO.get(cls)  (also when compiling);  store only when not compiling
     utils.cache.newfun:      bypass = not locked or compiling;  tensors are never stored
   [f] is the uncached computation (a getattr on the class / the wrapped method).  Python None as a value is [None]:
   a stored None is indistinguishable from an absent entry (`if out is None`). *)
From Coq Require Import List Bool.
Import ListNotations.

Section Memo.
  Context {K V : Type} (keqb : K -> K -> bool) (f : K -> option V) (storable : V -> bool).

  Definition memo := list (K * option V).               (* most recent binding first: MEMO[k] = v rebinds *)

  Fixpoint pyget (m : memo) (k : K) : option V :=       (* MEMO.get(k): None when absent or when None is stored *)
    match m with
    | [] => None
    | (k', v) :: r => if keqb k' k then v else pyget r k
    end.

  (* one call.  [read_gated]: the lookup is skipped when bypassing (all but _is_tensorclass) *)
  Definition query (read_gated bypass : bool) (m : memo) (k : K) : option V * memo :=
    let out := if read_gated && bypass then None else pyget m k in
    match out with
    | Some v => (Some v, m)
    | None =>
        let v := f k in
        (v, if bypass then m
            else match v with
                 | Some x => if storable x then (k, v) :: m else m
                 | None => (k, None) :: m
                 end)
    end.

  (* a sequence of calls, each with its own bypass flag (compiled and eager code interleave on the same table) *)
  Fixpoint run (read_gated : bool) (qs : list (bool * K)) (m : memo) : list (option V) * memo :=
    match qs with
    | [] => ([], m)
    | (c, k) :: r =>
        let '(v, m1) := query read_gated c m k in
        let '(vs, m2) := run read_gated r m1 in
        (v :: vs, m2)
    end.

  (* every stored non-None value is the value of the uncached computation *)
  Definition coherent (m : memo) : Prop := forall k v, pyget m k = Some v -> f k = Some v.
End Memo.
