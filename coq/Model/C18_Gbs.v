(* Use site of the slice helper: tensordict/utils.py::_getitem_batch_size, slice case.
     if is_compiling(): out.append(len(range( *_slice_indices(idx, batch) )))
     else:              out.append(len(range( *idx.indices(batch) )))
   Both arms, as arithmetic (len(range(a,b,c)) is CPython's get_len_of_range = Spec.PySlice.range_len).
   None = ValueError (slice step cannot be zero), raised by _slice_indices resp. slice.indices. *)
From Coq Require Import ZArith List Bool.
From TD Require Import Spec.PySlice Model.SliceM.
Open Scope Z_scope.

Definition gbs_slice_dim (compile : bool) (start stop step : option Z) (len : Z) : option Z :=
  if compile then
    match slice_indices_opt start stop step len with
    | Some t => Some (range_len t)
    | None => None
    end
  else
    let st := match step with None => 1 | Some s => s end in
    if st =? 0 then None else Some (range_len (py_indices start stop st len)).

(* the positions a range enumerates: k-th element for 0 <= k, while it has not passed [stop] *)
Definition in_range (t : Z * Z * Z) (k : Z) : Prop :=
  let '(a, b, c) := t in 0 <= k /\ (if c >? 0 then a + k * c < b else a + k * c > b).
