(* C09 — model of the shape arithmetic of tensordict's pointwise ops (definitions only).
   base.py:213-263  _maybe_broadcast_other: decides whether operands are broadcast against the batch shape, expands
                    self and the operands to torch.broadcast_shapes(...), and applies the op leaf by leaf with
                    expand_as_right(other, leaf)
   utils.py:349     expand_as_right: unsqueeze(-1) up to the leaf's rank, then expand
   Views are modelled by their shape and the map from a position of the view to the position of the underlying
   tensor (what element is read), so that "broadcast against the batch dims from the left" can be stated. *)
From Coq Require Import ZArith List Bool Arith.
Import ListNotations.
From TD Require Import Model.Dual Model.C09_Align.

Definition shape := list nat.

Fixpoint shape_eqb (a b : shape) : bool :=
  match a, b with
  | [], [] => true
  | x :: a', y :: b' => Nat.eqb x y && shape_eqb a' b'
  | _, _ => false
  end.

(* torch.broadcast_shapes, on reversed shapes (dims are aligned from the right) *)
Definition bdim (x y : nat) : option nat :=
  if Nat.eqb x y then Some x else if Nat.eqb x 1 then Some y else if Nat.eqb y 1 then Some x else None.

Fixpoint bcast_rev (a b : list nat) : option (list nat) :=
  match a, b with
  | [], l => Some l
  | l, [] => Some l
  | x :: a', y :: b' =>
      match bdim x y, bcast_rev a' b' with
      | Some d, Some r => Some (d :: r)
      | _, _ => None
      end
  end.
Definition bcast2 (a b : shape) : option shape := option_map (@rev nat) (bcast_rev (rev a) (rev b)).
Definition bcast_all (l : list shape) : option shape :=
  fold_left (fun acc s => match acc with Some a => bcast2 a s | None => None end) l (Some []).

(* tensor.expand(target): dims aligned from the right, every source dim equals the target dim or is 1 *)
Fixpoint all2 {A B} (f : A -> B -> bool) (a : list A) (b : list B) : bool :=
  match a, b with
  | [], [] => true
  | x :: a', y :: b' => f x y && all2 f a' b'
  | _, _ => false
  end.
Definition expandable (s t : shape) : bool :=
  Nat.leb (List.length s) (List.length t)
  && all2 (fun d b => Nat.eqb d b || Nat.eqb d 1) s (skipn (List.length t - List.length s) t).

(* ---------- views: shape + element map ---------- *)
Record view := { vshape : shape; vidx : list nat -> list nat }.
Definition base_view (s : shape) : view := {| vshape := s; vidx := fun i => i |}.

(* position read in a tensor of shape [s] for position [i] of its expansion to a shape of the same or larger rank *)
Fixpoint zero_ones (s : shape) (i : list nat) : list nat :=
  match s, i with
  | d :: s', x :: i' => (if Nat.eqb d 1 then 0 else x) :: zero_ones s' i'
  | _, _ => []
  end.
Definition bidx (s : shape) (i : list nat) : list nat := zero_ones s (skipn (List.length i - List.length s) i).

Definition v_expand (v : view) (t : shape) : res view :=
  if expandable (vshape v) t then Ok {| vshape := t; vidx := fun i => vidx v (bidx (vshape v) i) |} else Raised.
Definition v_unsqueeze_last (v : view) : view :=
  {| vshape := vshape v ++ [1]; vidx := fun i => vidx v (removelast i) |}.
Fixpoint v_unsqueeze_n (n : nat) (v : view) : view :=
  match n with O => v | S n' => v_unsqueeze_n n' (v_unsqueeze_last v) end.

(* utils.expand_as_right(tensor, dest) *)
Definition expand_as_right (v : view) (dest : shape) : res view :=
  if Nat.ltb (List.length dest) (List.length (vshape v)) then Raised else
  if negb (forallb (fun p => Nat.eqb (fst p) (snd p) || Nat.eqb (fst p) 1) (combine (vshape v) dest)) then Raised else
  v_expand (v_unsqueeze_n (List.length dest - List.length (vshape v)) v) dest.

(* ---------- _maybe_broadcast_other ---------- *)
Inductive okind := KNone | KPy | KTensor (s : shape) | KTd (s : shape).

Inductive bplan :=
| BDirect                                  (* func(self, others...): operands untouched *)
| BPerLeaf (B : shape)                     (* self.expand(B)._fast_apply(lambda x: x.op(expand_as_right(o.expand(B), x), ...)) *)
| BRecurse (B : shape)                     (* self.expand(B).op(o.expand(B) for every operand o) — every operand is a tensordict *)
| BRaised.

Definition needs_bcast (self_bs : shape) (o : okind) : bool :=
  match o with
  | KTensor s => negb (Nat.eqb (List.length s) 0)
  | KTd s => negb (Nat.eqb (List.length s) 0) && negb (shape_eqb s self_bs)
  | _ => false
  end.
Definition oshape (o : okind) : option (option shape) :=   (* None: AttributeError (no .shape); Some None: skipped *)
  match o with KNone => Some None | KPy => None | KTensor s | KTd s => Some (Some s) end.
Definition is_tensor (o : okind) := match o with KTensor _ => true | _ => false end.
Definition is_td (o : okind) := match o with KTd _ => true | _ => false end.

Definition maybe_broadcast (self_bs : shape) (others : list okind) : bplan :=
  if negb (existsb (needs_bcast self_bs) others) then BDirect else
  match sequence (map oshape others) with
  | None => BRaised                                          (* a python scalar has no .shape *)
  | Some shs =>
      let shapes := self_bs :: fold_right (fun o acc => match o with Some s => s :: acc | None => acc end) [] shs in
      match bcast_all shapes with
      | None => BRaised
      | Some B =>
          if existsb is_tensor others
          then (if existsb is_td others then BRaised        (* leaf.op(tensordict, tensor): TypeError *)
                else BPerLeaf B)
          else BRecurse B
      end
  end.

(* the view of a tensor operand of shape [s] that reaches torch for a leaf of shape B ++ feat *)
Definition operand_view (s B feat : shape) : res view :=
  match v_expand (base_view s) B with
  | Ok v => expand_as_right v (B ++ feat)
  | Raised => Raised
  end.
