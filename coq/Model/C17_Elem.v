(* C17 — element maps of the shape operations usable as context managers.
   [shape_of c sh] / [push c sh i]: what the tensordict call [c] does to the batch shape [sh] and where the element at
   multi-index [i] of the source lands in the result (tensordict's own argument checks included: negative dims are
   normalised against the rank, `flatten` refuses start_dim >= end_dim (base.py::flatten), `-1` is inferred in `view` and
   `unflatten` sizes).  [forward_call] is python's binding of the spelled forward call to the method's signature.
   Both the forward operation and the inverse call issued by `_reverse_*` (Model/C17_Inverse.v::reverse) are [icall]s, so
   "inverse after forward is the identity on element positions" is a statement about [push].  Definitions only. *)
From Coq Require Import ZArith List String Bool Lia.
Import ListNotations.
From TD Require Import Model.C17_Inverse.
Open Scope string_scope.
Open Scope Z_scope.

(* a multi-index of a tensor of shape sh *)
Fixpoint valid_idx (sh idx : list Z) : bool :=
  match sh, idx with
  | [], [] => true
  | s :: sh', x :: r => (0 <=? x) && (x <? s) && valid_idx sh' r
  | _, _ => false
  end.

(* row-major position of a multi-index, and back *)
Fixpoint ravel (sh idx : list Z) : Z :=
  match sh, idx with
  | _ :: sh', x :: r => x * prodZ sh' + ravel sh' r
  | _, _ => 0
  end.

Fixpoint unravel (sh : list Z) (k : Z) : list Z :=
  match sh with
  | [] => []
  | _ :: sh' => k / prodZ sh' :: unravel sh' (k mod prodZ sh')
  end.

(* l[a : b + 1] *)
Definition seg (l : list Z) (a b : Z) : list Z := firstn (Z.to_nat (b + 1 - a)) (skipn (Z.to_nat a) l).

(* torch's infer_size: at most one -1, replaced by total / (product of the others) *)
Definition is_m1 (x : Z) : bool := x =? -1.
Definition infer (shp : list Z) (total : Z) : option (list Z) :=
  if negb (forallb (fun x => -1 <=? x) shp) then None else
  match filter is_m1 shp with
  | [] => if prodZ shp =? total then Some shp else None
  | [_] => let known := prodZ (filter (fun x => negb (is_m1 x)) shp) in
           if (0 <? known) && (total mod known =? 0)
           then Some (map (fun x => if is_m1 x then total / known else x) shp) else None
  | _ => None
  end.

(* l is a permutation of 0..n-1 *)
Definition is_perm (n : nat) (l : list Z) : bool :=
  Nat.eqb (List.length l) n && forallb (fun k => existsb (Z.eqb (Z.of_nat k)) l) (seq 0 n).

(* _td.py::_permute accepts an order with FEWER entries than batch dims as long as it is a permutation of
   0..len-1 (negative entries are normalised against the rank first); the remaining dims stay in place *)
Definition perm_dims (l : list Z) (n : Z) : option (list Z) :=
  let l' := map (fun d => norm d n) l in
  if forallb (fun d => in_range d n) l && is_perm (List.length l) l' then Some l' else None.

Definition apply_perm (x p : list Z) : list Z := (sh_permute x p ++ skipn (List.length p) x)%list.

Definition flatten_dims (a b n : Z) : option (Z * Z) :=
  if in_range a n && in_range b n && (norm a n <? norm b n) then Some (norm a n, norm b n) else None.

Definition unflatten_dims (sh : list Z) (d : Z) (sz : list Z) : option (Z * list Z) :=
  let n := zlen sh in
  if in_range d n then
    match sz with
    | [] => None
    | _ => match infer sz (nthZ sh (norm d n) 0) with Some sz' => Some (norm d n, sz') | None => None end
    end
  else None.

Definition shape_of (c : icall) (sh : list Z) : option (list Z) :=
  let n := zlen sh in
  match c with
  | CTranspose a b => sh_transpose sh a b
  | CPermute l => option_map (apply_perm sh) (perm_dims l n)
  | CView l => infer l (prodZ sh)
  | CFlatten a b => option_map (fun ab => sh_flatten sh (fst ab) (snd ab)) (flatten_dims a b n)
  | CUnflatten d sz => option_map (fun ds => sh_unflatten sh (fst ds) (snd ds)) (unflatten_dims sh d sz)
  | CSqueeze d => if in_range d n then Some (sh_squeeze sh (norm d n)) else None
  | CUnsqueeze d => if in_range d (n + 1) then Some (sh_unsqueeze sh (norm d (n + 1))) else None
  | CIdentity => Some sh
  | _ => None
  end.

(* where source element [i] lands in the result *)
Definition push (c : icall) (sh i : list Z) : option (list Z) :=
  let n := zlen sh in
  match c with
  | CTranspose a b => if zlen i =? n then sh_transpose i a b else None
  | CPermute l => if zlen i =? n then option_map (apply_perm i) (perm_dims l n) else None
  | CView l => option_map (fun shp => unravel shp (ravel sh i)) (infer l (prodZ sh))
  | CFlatten a b =>
      option_map (fun ab => let '(a', b') := ab in
                  firstn (Z.to_nat a') i ++ [ravel (seg sh a' b') (seg i a' b')] ++ skipn (Z.to_nat (b' + 1)) i)%list
                 (flatten_dims a b n)
  | CUnflatten d sz =>
      option_map (fun ds => let '(d', sz') := ds in
                  firstn (Z.to_nat d') i ++ unravel sz' (nthZ i d' 0) ++ skipn (Z.to_nat (d' + 1)) i)%list
                 (unflatten_dims sh d sz)
  | CSqueeze d =>
      if in_range d n then
        let d' := norm d n in
        Some (if nthZ sh d' 0 =? 1 then firstn (Z.to_nat d') i ++ skipn (Z.to_nat (d' + 1)) i else i)%list
      else None
  | CUnsqueeze d =>
      if in_range d (n + 1) then
        let d' := norm d (n + 1) in Some (firstn (Z.to_nat d') i ++ [0] ++ skipn (Z.to_nat d') i)%list
      else None
  | CIdentity => Some i
  | _ => None
  end.

(* ---------------- python's binding of the spelled forward call ---------------- *)
Definition kw_only (s : spelled) (names : list string) : bool :=
  forallb (fun kv => existsb (String.eqb (fst kv)) names) (kw s)
  && forallb (fun nm => (List.length (filter (fun kv => String.eqb (fst kv) nm) (kw s)) <=? 1)%nat) names.

Definition forward_call (op : string) (s : spelled) : option icall :=
  if String.eqb op "transpose" then
    if negb (kw_only s ["dim0"; "dim1"]) then None else
    match pos s, kwget (kw s) "dim0", kwget (kw s) "dim1" with
    | [VInt a; VInt b], None, None => Some (CTranspose a b)
    | [VInt a], None, Some (VInt b) => Some (CTranspose a b)
    | [], Some (VInt a), Some (VInt b) => Some (CTranspose a b)
    | _, _, _ => None
    end
  else if String.eqb op "permute" then
    if negb (kw_only s ["dims"]) then None else
    match pos s, kwget (kw s) "dims" with
    | _ :: _, Some _ => None
    | _, _ => option_map CPermute (shape_from_args s "dims")
    end
  else if String.eqb op "view" then
    if negb (kw_only s ["size"]) then None else
    match pos s, kwget (kw s) "size" with
    | _ :: _, Some _ => None
    | _, _ => option_map CView (shape_from_args s "size")
    end
  else if String.eqb op "flatten" then
    if negb (kw_only s ["start_dim"; "end_dim"]) then None else
    match pos s, kwget (kw s) "start_dim", kwget (kw s) "end_dim" with
    | [VInt a; VInt b], None, None => Some (CFlatten a b)
    | [VInt a], None, Some (VInt b) => Some (CFlatten a b)
    | [VInt a], None, None => Some (CFlatten a (-1))
    | [], Some (VInt a), Some (VInt b) => Some (CFlatten a b)
    | [], Some (VInt a), None => Some (CFlatten a (-1))
    | [], None, Some (VInt b) => Some (CFlatten 0 b)
    | [], None, None => Some (CFlatten 0 (-1))
    | _, _, _ => None
    end
  else if String.eqb op "unflatten" then
    if negb (kw_only s ["dim"; "unflattened_size"]) then None else
    match pos s, kwget (kw s) "dim", kwget (kw s) "unflattened_size" with
    | [VInt d; VInts sz], None, None => Some (CUnflatten d sz)
    | [VInt d], None, Some (VInts sz) => Some (CUnflatten d sz)
    | [], Some (VInt d), Some (VInts sz) => Some (CUnflatten d sz)
    | _, _, _ => None
    end
  else if String.eqb op "squeeze" then
    if negb (kw_only s ["dim"]) then None else
    match pos s, kwget (kw s) "dim" with
    | [VInt d], None => Some (CSqueeze d)
    | [], Some (VInt d) => Some (CSqueeze d)
    | _, _ => None
    end
  else if String.eqb op "unsqueeze" then
    if negb (kw_only s ["dim"]) then None else
    match pos s, kwget (kw s) "dim" with
    | [VInt d], None => Some (CUnsqueeze d)
    | [], Some (VInt d) => Some (CUnsqueeze d)
    | _, _ => None
    end
  else None.

(* the statement "r undoes c": shapes restored, every valid position of the source comes back to itself, and every
   valid position of the yielded object is the image of exactly the source position it is written back to *)
Definition undoes (c r : icall) (sh ysh : list Z) : Prop :=
  shape_of r ysh = Some sh
  /\ (forall i, valid_idx sh i = true ->
        exists j, push c sh i = Some j /\ valid_idx ysh j = true /\ push r ysh j = Some i)
  /\ (forall j, valid_idx ysh j = true ->
        exists i, push r ysh j = Some i /\ valid_idx sh i = true /\ push c sh i = Some j).
