(* Model of the remaining dual (eager / compile-only) helpers of C18:
   TensorDict._parse_batch_size (_td.py) and the key-aligned value lists _values_list/_items_list (base.py). *)
From Coq Require Import ZArith List String Bool.
Import ListNotations.

(* ---------- _parse_batch_size ---------- *)
(* what the caller passes as batch_size; BOther = any object torch.Size() rejects that is not None / a Number *)
Inductive bs_arg := BSize (l : list Z) | BTuple (l : list Z) | BList (l : list Z) | BInt (n : Z) | BNone | BOther.
Inductive src_arg := SrcTD (bs : list Z) | SrcOther.
Inductive pbs_res := PSize (l : list Z) | PValueError.

(* eager branch:  try: return torch.Size(batch_size)  except: None -> [], Number -> [n], source td -> its batch size *)
Definition torch_size_ctor (b : bs_arg) : option (list Z) :=
  match b with
  | BSize l | BTuple l | BList l => Some l
  | BInt _ | BNone | BOther => None       (* torch.Size(3), torch.Size(None) raise TypeError *)
  end.

Definition parse_bs_eager (src : src_arg) (b : bs_arg) : pbs_res :=
  match torch_size_ctor b with
  | Some l => PSize l
  | None =>
      match b with
      | BNone => PSize []
      | BInt n => PSize [n]
      | _ => match src with SrcTD bs => PSize bs | SrcOther => PValueError end
      end
  end.

(* compile branch: isinstance chain *)
Definition parse_bs_compile (src : src_arg) (b : bs_arg) : pbs_res :=
  match b with
  | BSize l => PSize l
  | BTuple l => PSize l
  | BList l => PSize l
  | BNone => PSize []
  | BInt n => PSize [n]
  | BOther => match src with SrcTD bs => PSize bs | SrcOther => PValueError end
  end.

(* ---------- key-aligned value lists ---------- *)
Section Align.
  Context {V : Type}.

  (* Python dict as insertion-ordered association list; d[k] = v replaces in place or appends *)
  Fixpoint dset {A} (d : list (string * A)) (k : string) (v : A) : list (string * A) :=
    match d with
    | [] => [(k, v)]
    | (k', v') :: r => if String.eqb k' k then (k', v) :: r else (k', v') :: dset r k v
    end.
  Fixpoint dget {A} (d : list (string * A)) (k : string) : option A :=
    match d with
    | [] => None
    | (k', v') :: r => if String.eqb k' k then Some v' else dget r k
    end.
  Definition dict_of {A} (kvs : list (string * A)) : list (string * A) :=
    fold_left (fun d kv => dset d (fst kv) (snd kv)) kvs [].

  Fixpoint sequence {A} (l : list (option A)) : option (list A) :=
    match l with
    | [] => Some []
    | None :: _ => None
    | Some a :: r => option_map (cons a) (sequence r)
    end.

  (* eager:   source = dict(zip(keys, vals)); [source[key] for key in sorting_keys]     (KeyError -> None) *)
  Definition align_eager (keys : list string) (vals : list V) (sorting : list string) : option (list V) :=
    let source := dict_of (combine keys vals) in
    sequence (map (dget source) sorting).

  (* compile: key_to_index = {key: i for i, key in enumerate(keys)}; [vals[key_to_index[key]] for key in sorting_keys] *)
  Definition align_compile (keys : list string) (vals : list V) (sorting : list string) : option (list V) :=
    let key_to_index := dict_of (combine keys (seq 0 (List.length keys))) in
    sequence (map (fun k => match dget key_to_index k with Some i => nth_error vals i | None => None end) sorting).

  (* _items_list(sorting_keys=..., default=None): KeyError also when fewer values than entries come back *)
  Definition items_list_aligned (compile : bool) (keys : list string) (vals : list V) (sorting : list string)
    : option (list string * list V) :=
    match (if compile then align_compile else align_eager) keys vals sorting with
    | None => None
    | Some nv => if Nat.ltb (List.length nv) (List.length vals) then None else Some (sorting, nv)
    end.
End Align.
