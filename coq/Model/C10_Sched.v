(* C10 — `_memmap_` with a writer pool, as a list of tasks.  Definitions only.

   With num_threads > 1 the walk of `_memmap_` (TensorDict, LazyStackedTensorDict, tensorclass, NonTensorData,
   NonTensorStack) runs in the calling thread and SUBMITS work to the pool:
     * one `_populate_memmap(dest, value, key, prefix)` per tensor entry           -> TPopulate prefix key leaf
     * one `_save_metadata(dest, prefix, metadata)` per TensorDict node            -> TWrite prefix [meta.json]
     * one `save_metadata()` closure per lazy stack / tensorclass / NonTensorData / NonTensorStack
                                                                                    -> TWrite prefix [meta.json (+ pickle)]
   Everything a task needs (value, key, prefix, the filled metadata dict, the payload) is captured when it is submitted;
   what it reads of `dest` at run time (shape, device, type) is not written by any task.  So a task is a function on
   (destination mapping, directory) that depends on nothing another task writes.
   The calling thread itself only creates directories (os.makedirs in the TensorDict / tensorclass walk) and puts the
   sub-collections into `dest` — [skeleton].  `concurrent.futures.wait(futures)` never looks at the results: a task
   that raises leaves no trace (finding S2) — [run_task] of a failing task is the identity, while the sequential run
   ([run_sequential], executor=None) stops with the exception.

   The state is flat: the destination mapping (key path -> what the entry is now), the files (directory path, file
   name) -> content, and the set of directories.  "The same as a mapping" is [state_equiv]. *)
From Coq Require Import ZArith List String Bool.
Import ListNotations.
From TD Require Import Model.C10_Meta.
Open Scope string_scope.
Open Scope list_scope.

Definition path := list string.
Record minfo := { mdtype : dtype; mshape : list nat; mfile : bool }.      (* mfile: a MemoryMappedTensor of this directory *)
Definition floc := (path * fname)%type.
Record state := { dest : list (path * minfo); fs : list (floc * content); dirs : list path }.
Definition init_state : state := {| dest := []; fs := []; dirs := [] |}.

Inductive task :=
| TPopulate (p : path) (k : string) (ol : opts * leaf)
| TWrite (p : path) (files : res (list (fname * content))) (rm : list fname).   (* rm: files the task removes (D109) *)

(* ---- finite maps as association lists; a write replaces an existing binding in place or appends ---- *)
Fixpoint path_eqb (a b : path) : bool :=
  match a, b with [], [] => true | x :: r, y :: s => String.eqb x y && path_eqb r s | _, _ => false end.
Definition floc_eqb (a b : floc) : bool := path_eqb (fst a) (fst b) && fname_eqb (snd a) (snd b).

Section Map.
  Context {K V : Type} (eqb : K -> K -> bool).
  Fixpoint mdel (k : K) (l : list (K * V)) : list (K * V) :=
    match l with [] => [] | (k', v') :: r => if eqb k k' then mdel k r else (k', v') :: mdel k r end.
  Fixpoint mget (k : K) (l : list (K * V)) : option V :=
    match l with [] => None | (k', v) :: r => if eqb k k' then Some v else mget k r end.
  Fixpoint mset (k : K) (v : V) (l : list (K * V)) : list (K * V) :=
    match l with
    | [] => [(k, v)]
    | (k', v') :: r => if eqb k k' then (k', v) :: r else (k', v') :: mset k v r
    end.
End Map.

(* os.makedirs(p, exist_ok=True): p and all its ancestors *)
Fixpoint prefixes (p : path) : list path :=
  match p with [] => [[]] | x :: r => [] :: map (cons x) (prefixes r) end.
Definition mkdirs (p : path) (d : list path) : list path :=
  fold_left (fun acc q => if existsb (path_eqb q) acc then acc else acc ++ [q]) (prefixes p) d.

(* ---- what a task does ---- *)
Definition write_files (p : path) (files : list (fname * content)) (f : list (floc * content)) : list (floc * content) :=
  fold_left (fun acc fc => mset floc_eqb (p, fst fc) (snd fc) acc) files f.
Definition remove_files (p : path) (rm : list fname) (f : list (floc * content)) : list (floc * content) :=
  fold_left (fun acc n => mdel floc_eqb (p, n) acc) rm f.

(* a task run by a pool worker: an exception is swallowed (the state is unchanged) *)
Definition run_task (t : task) (s : state) : state :=
  match t with
  | TPopulate p k (o, l) =>
      if refused o l then s
      else {| dest := mset path_eqb (p ++ [k]) {| mdtype := ldtype l; mshape := lshape l; mfile := true |} (dest s);
              fs := if Nat.eqb (numel (lshape l)) 0 then fs s
                    else mset floc_eqb (p, FLeaf k) (CCells (ldtype l) (if like o then repeat 0%Z (numel (lshape l)) else lcells l)) (fs s);
              dirs := dirs s |}
  | TWrite p (Ok files) rm => {| dest := dest s; fs := write_files p files (remove_files p rm (fs s)); dirs := mkdirs p (dirs s) |}
  | TWrite p (Raised _) _ => s
  end.

(* the same task run inline (executor=None): the exception propagates *)
Definition run_task_strict (t : task) (s : state) : res state :=
  match t with
  | TPopulate p k (o, l) => if refused o l then Raised ERuntime else Ok (run_task t s)
  | TWrite p (Raised e) _ => Raised e
  | TWrite p (Ok _) _ => Ok (run_task t s)
  end.

Definition run_tasks (ts : list task) (s : state) : state := fold_left (fun s t => run_task t s) ts s.
Fixpoint run_tasks_strict (ts : list task) (s : state) : res state :=
  match ts with [] => Ok s | t :: r => bind (run_task_strict t s) (run_tasks_strict r) end.

(* ---- the tasks of a structure, in submission order ---- *)
Fixpoint tasks_of (o : opts) (t : td) (p : path) {struct t} : list task :=
  match t with
  | Leaf _ => []
  | Node bs ents =>
      (fix go (es : list (string * td)) : list task :=
         match es with
         | [] => []
         | (k, Leaf l) :: r => TPopulate p k (o, l) :: go r
         | (k, c) :: r => tasks_of o c (p ++ [k]) ++ go r
         end) ents
      ++ [TWrite p (Ok [(FMeta, CJson (JObj (node_meta bs ents)))]) []]
  | Lazy sd ms =>
      TWrite p (Ok [(FMeta, CJson (JObj (lazy_meta sd (List.length ms))))]) []
      :: (fix go (ms : list td) (i : nat) : list task :=
            match ms with [] => [] | m :: r => tasks_of o m (p ++ [string_of_nat i]) ++ go r (S i) end) ms 0
  | TCls c nt inner =>
      TWrite p (tc_files c nt []) (tc_removes nt) :: tasks_of o inner (p ++ ["_tensordict"])
  | NData bs pl => [TWrite p (ndata_files bs pl []) (if is_json_serializable pl then [FOther] else [])]
  | NStack _ => [TWrite p (nstack_files (stack_ndim t) (tolist t) []) []]
  end.

(* ---- what the calling thread does itself: directories of TensorDict / tensorclass / NonTensorData nodes, and, for an
   in-place call, the entries that are already in the destination (they are overwritten by the tasks) ---- *)
Fixpoint skeleton (inplace : bool) (t : td) (p : path) (s : state) {struct t} : state :=
  match t with
  | Leaf l =>
      if inplace then {| dest := mset path_eqb p {| mdtype := ldtype l; mshape := lshape l; mfile := false |} (dest s);
                         fs := fs s; dirs := dirs s |} else s
  | Node bs ents =>
      (fix go (es : list (string * td)) (s : state) : state :=
         match es with [] => s | (k, x) :: r => go r (skeleton inplace x (p ++ [k]) s) end) ents
        {| dest := dest s; fs := fs s; dirs := mkdirs p (dirs s) |}
  | Lazy sd ms =>
      (fix go (ms : list td) (i : nat) (s : state) : state :=
         match ms with [] => s | m :: r => go r (S i) (skeleton inplace m (p ++ [string_of_nat i]) s) end) ms 0 s
  | TCls c _ inner => skeleton inplace inner (p ++ ["_tensordict"]) {| dest := dest s; fs := fs s; dirs := mkdirs p (dirs s) |}
  | NData _ _ => {| dest := dest s; fs := fs s; dirs := mkdirs p (dirs s) |}
  | NStack _ => s
  end.

(* _check_memmap_key in the walk of the calling thread: an entry named like a field of meta.json is refused before
   anything is submitted for it (D102) *)
Fixpoint has_reserved (t : td) : bool :=
  match t with
  | Node _ ents => (fix any (es : list (string * td)) : bool :=
                      match es with [] => false | (k, x) :: r => reserved k || has_reserved x || any r end) ents
  | Lazy _ ms => (fix any (l : list td) : bool := match l with [] => false | x :: r => has_reserved x || any r end) ms
  | TCls _ _ inner => has_reserved inner
  | _ => false
  end.

Definition run_sequential (o : opts) (inplace : bool) (t : td) : res state :=
  if has_reserved t then Raised EValueError
  else run_tasks_strict (tasks_of o t []) (skeleton inplace t [] init_state).
Definition run_pool (o : opts) (inplace : bool) (t : td) (ts' : list task) : state :=
  run_tasks ts' (skeleton inplace t [] init_state).

(* ---- what the CALL returns with a pool (finding S2).
   Unrepaired: `concurrent.futures.wait(futures)` and nothing else — the call returns normally whatever the tasks did.
   Repaired (f.result() for every future after the wait, in submission order): the call raises the exception of the first
   submitted task that failed; every task has run by then, the directory is the same.
   [fixed_S2] is the ONE definition to flip when /repo changes side. *)
Definition fixed_S2 : bool := true.

Definition task_error (t : task) : option err :=
  match t with
  | TPopulate _ _ (o, l) => if refused o l then Some ERuntime else None
  | TWrite _ (Raised e) _ => Some e
  | TWrite _ (Ok _) _ => None
  end.
Fixpoint first_error (ts : list task) : option err :=
  match ts with [] => None | t :: r => match task_error t with Some e => Some e | None => first_error r end end.

(* submitted: the tasks in submission order (whose futures are inspected in that order); ts': the order they completed in *)
Definition pool_call_gen (fixed : bool) (o : opts) (inplace : bool) (t : td) (ts' : list task) : res state :=
  if has_reserved t then Raised EValueError
  else if fixed then match first_error (tasks_of o t []) with Some e => Raised e | None => Ok (run_pool o inplace t ts') end
  else Ok (run_pool o inplace t ts').
Definition pool_call := pool_call_gen fixed_S2.

(* ---- completion orders: the harness's executor runs the task with submission index order[0] first, ... ; indices
   that are not listed follow in submission order ---- *)
Fixpoint pick (ts : list task) (order : list nat) (seen : list nat) : list task :=
  match order with
  | [] => []
  | i :: r => if existsb (Nat.eqb i) seen then pick ts r seen
              else match nth_error ts i with Some t => t :: pick ts r (i :: seen) | None => pick ts r seen end
  end.
Fixpoint rest_from (ts : list task) (i : nat) (order : list nat) : list task :=
  match ts with [] => [] | t :: r => (if existsb (Nat.eqb i) order then [] else [t]) ++ rest_from r (S i) order end.
Definition permute (order : list nat) (ts : list task) : list task := pick ts order [] ++ rest_from ts 0 order.

(* ---- equality as mappings ---- *)
Definition state_equiv (a b : state) : Prop :=
  (forall k, mget path_eqb k (dest a) = mget path_eqb k (dest b))
  /\ (forall k, mget floc_eqb k (fs a) = mget floc_eqb k (fs b))
  /\ (forall p, existsb (path_eqb p) (dirs a) = existsb (path_eqb p) (dirs b)).

(* targets of a task; two tasks are independent when they do not write the same key of the mapping or the same file *)
Definition dest_targets (t : task) : list path :=
  match t with TPopulate p k (o, l) => if refused o l then [] else [p ++ [k]] | TWrite _ _ _ => [] end.
Definition file_targets (t : task) : list floc :=
  match t with
  | TPopulate p k (o, l) => if refused o l || Nat.eqb (numel (lshape l)) 0 then [] else [(p, FLeaf k)]
  | TWrite p (Ok files) rm => map (fun fc => (p, fst fc)) files ++ map (fun n => (p, n)) rm
  | TWrite p (Raised _) _ => []
  end.
Definition disjointb {A} (eqb : A -> A -> bool) (a b : list A) : bool := forallb (fun x => negb (existsb (eqb x) b)) a.
Definition independent2 (a b : task) : bool :=
  disjointb path_eqb (dest_targets a) (dest_targets b) && disjointb floc_eqb (file_targets a) (file_targets b).
Fixpoint independent (ts : list task) : bool :=
  match ts with [] => true | t :: r => forallb (independent2 t) r && independent r end.

(* ---- flattening a directory tree (the link with the codec) ---- *)
Fixpoint flatten (p : path) (d : dir) : list (floc * content) :=
  match d with
  | Dir files subs =>
      map (fun fc => ((p, fst fc), snd fc)) files
      ++ (fix go (l : list (string * dir)) : list (floc * content) :=
            match l with [] => [] | (k, x) :: r => flatten (p ++ [k]) x ++ go r end) subs
  end.

(* distinct keys in every TensorDict node (python dicts: always true of a real tensordict) *)
Fixpoint keys_distinct (t : td) : bool :=
  match t with
  | Node _ ents =>
      nodupb (map fst ents)
      && (fix all (es : list (string * td)) : bool := match es with [] => true | (_, x) :: r => keys_distinct x && all r end) ents
  | Lazy _ ms => (fix all (l : list td) : bool := match l with [] => true | x :: r => keys_distinct x && all r end) ms
  | TCls _ _ inner => keys_distinct inner
  | _ => true
  end.

(* the files of two states / listings agree as mappings (decidable: compared on the keys that occur) *)
Definition content_eqb (a b : content) : bool :=
  match a, b with
  | CCells d c, CCells d' c' => dtype_eqb d d' && (Nat.eqb (List.length c) (List.length c')) && forallb (fun xy => Z.eqb (fst xy) (snd xy)) (combine c c')
  | CJson _, CJson _ => true        (* compared structurally by the harness on the printed form *)
  | CPickle _, CPickle _ => true
  | _, _ => false
  end.
Definition fs_agree (a b : list (floc * content)) : bool :=
  forallb (fun kc => match mget floc_eqb (fst kc) b with Some c => content_eqb (snd kc) c | None => false end) a
  && forallb (fun kc => match mget floc_eqb (fst kc) a with Some _ => true | None => false end) b.
