(* Model of tensordict's batch-index bookkeeping:
   utils.py::convert_ellipsis_to_idx, utils.py::_getitem_batch_size (both passes), base.py::_get_names_idx,
   _td.py::_index_tensordict (rank-0 guard, nested batch size), _td.py::__setitem__ (value batch-size rule). *)
From Coq Require Import ZArith List Bool Lia.
Import ListNotations.
From TD Require Import Spec.PySlice.
Open Scope nat_scope.

Inductive item :=
| IInt (i : Z)                         (* python int *)
| ISl (a b c : option Z)               (* slice *)
| INone                                (* None *)
| IEll                                 (* Ellipsis *)
| IAdv (sh : list nat)                 (* list / range / ndarray / integer tensor with ndim >= 1: its shape *)
| IAdv0                                (* 0-dim integer tensor *)
| IMask (sh : list nat) (cnt : nat).   (* boolean mask of shape sh with cnt True entries (ndim >= 1) *)

Inductive res (A : Type) := Ok (a : A) | Reject.
Arguments Ok {A} a.
Arguments Reject {A}.

Definition is_ell (it : item) : bool := match it with IEll => true | _ => false end.
Definition is_none (it : item) : bool := match it with INone => true | _ => false end.

(* ---------------- convert_ellipsis_to_idx (tuple index) ---------------- *)
Definition full_slice : item := ISl None None None.

(* a boolean mask with n dims indexes n dims at once: n - 1 dims more than its one position in the tuple *)
Definition extra_dims (idx : list item) : nat :=
  fold_right (fun it n => match it with IMask sh _ => (length sh - 1) + n | _ => n end) 0 idx.

Fixpoint find_ell (l : list item) (i : nat) : nat :=
  match l with [] => i | x :: r => if is_ell x then i else find_ell r (S i) end.

Definition convert_ellipsis (idx : list item) (bs : list nat) : res (list item) :=
  if negb (existsb is_ell idx) then Ok idx else
  let num_dims := length bs in
  let num_ell := length (filter is_ell idx) in
  let num_none := length (filter is_none idx) in
  let extra := extra_dims idx in
  if Nat.ltb num_dims (length idx + extra - num_ell - num_none) then Reject else
  (* the scan: a second Ellipsis raises *)
  if Nat.ltb 1 num_ell then Reject else
  let start_pos := find_ell idx 0 in
  let after := length idx - start_pos - 1 in
  let num_dims' := num_dims + num_none in
  let ell_len := num_dims' - after - start_pos - extra in
  let new_index := firstn start_pos idx ++ repeat full_slice ell_len ++ firstn after (skipn (S start_pos) idx) in
  if Nat.eqb (length new_index + extra) num_dims' then Ok new_index else Reject.

(* ---------------- _getitem_batch_size ---------------- *)
(* torch.broadcast_shapes on two shapes, right-aligned *)
Fixpoint bcast_rev (a b : list nat) : res (list nat) :=
  match a, b with
  | [], l | l, [] => Ok l
  | x :: a', y :: b' =>
      match bcast_rev a' b' with
      | Reject => Reject
      | Ok r => if Nat.eqb x y then Ok (x :: r) else if Nat.eqb x 1 then Ok (y :: r)
                else if Nat.eqb y 1 then Ok (x :: r) else Reject
      end
  end.
Definition bcast (a b : list nat) : res (list nat) :=
  match bcast_rev (rev a) (rev b) with Ok r => Ok (rev r) | Reject => Reject end.
Fixpoint bcast_all (l : list (list nat)) : res (list nat) :=
  match l with
  | [] => Ok []
  | [s] => Ok s
  | s :: r => match bcast_all r with Ok t => bcast s t | Reject => Reject end
  end.

(* pass 1: per item, the "shape" entered in shapes_dict (if any) and whether it is boolean *)
Definition adv_shape (it : item) : option (list nat) :=
  match it with
  | IAdv sh => Some sh
  | IMask _ cnt => Some [cnt]
  | _ => None                      (* int, 0-dim integer tensor, slice, None, Ellipsis *)
  end.
Definition is_sep (it : item) : bool :=    (* items that separate advanced indices: slices and None *)
  match it with ISl _ _ _ | INone => true | _ => false end.

(* state of pass 1: (number of entries in shapes_dict > 0, look_for_disjoint, disjoint) *)
Definition pass1_step (st : bool * bool * bool) (it : item) : bool * bool * bool :=
  let '(seen, look, disj) := st in
  match adv_shape it with
  | Some _ => (true, look, if look then true else disj)
  | None => if is_sep it then (seen, negb disj && seen, disj) else st
  end.
Definition pass1 (idx : list item) : bool :=
  let '(_, _, d) := fold_left pass1_step idx (false, false, false) in d.

Definition slice_len (a b c : option Z) (n : nat) : res nat :=
  let st := match c with None => 1%Z | Some s => s end in
  if (st =? 0)%Z then Reject
  else Ok (Z.to_nat (range_len (py_indices a b st (Z.of_nat n)))).

(* pass 2.  count starts at -1 in the code and is pre-incremented: here [cnt] is the NEXT dimension to consume,
   i.e. code's count + 1.  [bshape] = Some B until the broadcast shape has been emitted. *)
Fixpoint pass2 (bs : list nat) (disj : bool) (idx : list item) (cnt : nat) (bshape : option (list nat))
               (out : list nat) : res (list nat) :=
  match idx with
  | [] => Ok (out ++ skipn cnt bs)
  | it :: r =>
      match it with
      | INone => pass2 bs disj r cnt bshape (out ++ [1])
      | IMask sh _ =>
          let cnt' := cnt + length sh in
          match bshape with
          | Some B => pass2 bs disj r cnt' None (if disj then B ++ out else out ++ B)
          | None => pass2 bs disj r cnt' None out
          end
      | IAdv _ =>
          match bshape with
          | Some B => pass2 bs disj r (S cnt) None (if disj then B ++ out else out ++ B)
          | None => pass2 bs disj r (S cnt) None out
          end
      | IInt _ | IAdv0 | IEll => pass2 bs disj r (S cnt) bshape out
      | ISl a b c =>
          match nth_error bs cnt with
          | None => Reject                                   (* batch_size[count] -> IndexError *)
          | Some n =>
              match slice_len a b c n with
              | Reject => Reject                             (* slice step 0 -> ValueError *)
              | Ok m => pass2 bs disj r (S cnt) bshape (out ++ [m])
              end
          end
      end
  end.

Definition adv_shapes (idx : list item) : list (list nat) :=
  flat_map (fun it => match adv_shape it with Some s => [s] | None => [] end) idx.

Definition gbs (bs : list nat) (idx : list item) : res (list nat) :=
  let shapes := adv_shapes idx in
  match (match shapes with [] => Ok None | _ => match bcast_all shapes with Ok B => Ok (Some B) | Reject => Reject end end) with
  | Reject => Reject
  | Ok bshape => pass2 bs (pass1 idx) idx 0 bshape []
  end.

(* ---------------- _index_tensordict ---------------- *)
(* rank-0 batch: only None / tuples of None pass the guard (0-dim boolean tensors are outside the grammar) *)
Definition rank0_guard (bs : list nat) (idx : list item) : bool :=
  match bs with
  | _ :: _ => true
  | [] => forallb is_none idx && negb (match idx with [] => true | _ => false end)
  end.

Definition index_bs (bs : list nat) (idx : list item) : res (list nat) :=
  if rank0_guard bs idx then gbs bs idx else Reject.

(* __getitem__ with a tuple index (base.py:534): () and all-full-slice tuples return self; an Ellipsis is expanded first *)
Definition is_full_slice (it : item) : bool :=
  match it with ISl None None None => true | ISl None None (Some 1%Z) => false | _ => false end.
Definition getitem_bs (bs : list nat) (idx : list item) : res (list nat) :=
  match idx with
  | [] => Ok bs
  | _ =>
      match (if existsb is_ell idx then convert_ellipsis idx bs else Ok idx) with
      | Reject => Reject
      | Ok idx' => if forallb is_full_slice idx' then Ok bs else index_bs bs idx'
      end
  end.

(* a nested tensordict with batch size [bs ++ extra] gets [result ++ extra] *)
Definition nested_bs (bs extra : list nat) (idx : list item) : res (list nat) :=
  match index_bs bs idx with Ok r => Ok (r ++ extra) | Reject => Reject end.

(* ---------------- __setitem__ with a tensordict value ---------------- *)
Inductive set_action := SetExpand (target : list nat) | SetReshape (target : list nat) | SetAsIs.
Definition is_suffix (v t : list nat) : bool :=
  (* value.shape == indexed_bs[max(0, len(indexed_bs) - len(value.shape)):] *)
  if Nat.leb (length v) (length t)
  then (fix eqb (a b : list nat) := match a, b with [], [] => true | x :: a', y :: b' => Nat.eqb x y && eqb a' b' | _, _ => false end)
         v (skipn (length t - length v) t)
  else false.
Definition setitem_value_action (bs : list nat) (idx : list item) (vbs : list nat) : res set_action :=
  match gbs bs idx with
  | Reject => Reject
  | Ok t =>
      if (fix eqb (a b : list nat) := match a, b with [], [] => true | x :: a', y :: b' => Nat.eqb x y && eqb a' b' | _, _ => false end) vbs t
      then Ok SetAsIs
      else if is_suffix vbs t then Ok (SetExpand t) else Ok (SetReshape t)
  end.
