#!/bin/sh
# offline build of the framework: Coq development (full .vo build), extraction, OCaml driver, C++ helper of /repo
set -e
cd "$(dirname "$0")"
export PYTHONPATH="${VERIF_REPO:-/repo}:$(pwd)" PYTHONHASHSEED=0
mkdir -p build evidence replays coq/Gen
/venv/bin/python -m harness.translate all
tools/gen_coqproject.sh
(cd coq && timeout 3000 make -j16)
(cd ocaml && ocamlfind ocamlopt -O2 -w -a model.mli model.ml driver.ml -o ../build/driver)
/venv/bin/python -c "from harness import cext; print(cext.build())"
echo setup-ok
