#!/bin/sh
# offline build of the framework: Coq development (full .vo build), extraction, OCaml driver, C++ helper of /repo
set -e
cd "$(dirname "$0")"
export PYTHONPATH="${VERIF_REPO:-/repo}:$(pwd)" PYTHONHASHSEED=0
mkdir -p build evidence replays coq/Gen
/venv/bin/python -m harness.translate all || echo 'setup: a translator failed (reported by the property check that owns it)'
tools/gen_coqproject.sh
# -k: a file that does not compile is reported by the check of the property that owns it, not by setup
(cd coq && timeout 3000 make -k -j16) || echo 'setup: some Coq files did not compile'
/venv/bin/python -c "
import glob, os, sys
from harness import core, cext
for f in sorted(glob.glob('coq/Extract/D_*.v')):
    pid = os.path.basename(f)[2:-2]
    ok, out = core.build_driver(pid)
    print('driver', pid, ok)
    if not ok:
        print(out[-1500:])
print(cext.build())"
echo setup-ok
