(* Correspondence driver: one S-expression per input line -> Model.dispatch_all -> one S-expression per output line.
   All decoding of arguments and canonical printing of model values is Gallina (coq/Lib/Sexp.v, coq/Extract/D_*.v);
   this file only converts text <-> Model.sexp.  Z stays the extracted inductive type. *)
open Model

let rec pos_of_int n = if n = 1 then XH else if n land 1 = 1 then XI (pos_of_int (n lsr 1)) else XO (pos_of_int (n lsr 1))
let z_of_int n = if n = 0 then Z0 else if n > 0 then Zpos (pos_of_int n) else Zneg (pos_of_int (- n))
let rec int_of_pos = function XH -> 1 | XO p -> 2 * int_of_pos p | XI p -> 2 * int_of_pos p + 1
let int_of_z = function Z0 -> 0 | Zpos p -> int_of_pos p | Zneg p -> - (int_of_pos p)
let explode s = List.init (String.length s) (String.get s)
let implode l = String.init (List.length l) (List.nth l)

exception Parse of string

let parse (s : string) : sexp =
  let n = String.length s in
  let pos = ref 0 in
  let rec skip () = if !pos < n && (s.[!pos] = ' ' || s.[!pos] = '\t') then (incr pos; skip ()) in
  let rec item () =
    skip ();
    if !pos >= n then raise (Parse "eof");
    match s.[!pos] with
    | '(' -> incr pos; let l = items [] in SL l
    | ')' -> raise (Parse "unexpected )")
    | '"' ->
        let st = !pos + 1 in
        let e = (try String.index_from s st '"' with Not_found -> raise (Parse "unterminated string")) in
        pos := e + 1; SA (explode (String.sub s st (e - st)))
    | _ ->
        let st = !pos in
        while !pos < n && not (List.mem s.[!pos] [' '; '\t'; '('; ')']) do incr pos done;
        let tok = String.sub s st (!pos - st) in
        (match int_of_string_opt tok with Some i -> SZ (z_of_int i) | None -> SA (explode tok))
  and items acc =
    skip ();
    if !pos >= n then raise (Parse "missing )");
    if s.[!pos] = ')' then (incr pos; List.rev acc) else let x = item () in items (x :: acc)
  in
  let r = item () in skip (); if !pos < n then raise (Parse "trailing input"); r

let symbol_like s = s <> "" && (match s.[0] with 'a'..'z' | 'A'..'Z' -> true | _ -> false) &&
  (let ok = ref true in String.iter (fun c -> match c with 'a'..'z' | 'A'..'Z' | '0'..'9' | '-' | '_' -> () | _ -> ok := false) s; !ok)

let rec print buf = function
  | SZ z -> Buffer.add_string buf (string_of_int (int_of_z z))
  | SA a -> let s = implode a in
      if symbol_like s then Buffer.add_string buf s else (Buffer.add_char buf '"'; Buffer.add_string buf s; Buffer.add_char buf '"')
  | SL l -> Buffer.add_char buf '(';
      List.iteri (fun i x -> if i > 0 then Buffer.add_char buf ' '; print buf x) l; Buffer.add_char buf ')'

let () =
  try
    while true do
      let line = input_line stdin in
      let buf = Buffer.create 256 in
      (try print buf (dispatch_all (parse line))
       with Parse m -> Buffer.add_string buf ("(parse-error \"" ^ m ^ "\")")
          | Stack_overflow -> Buffer.add_string buf "(stack-overflow)");
      print_string (Buffer.contents buf); print_newline ()
    done
  with End_of_file -> ()
